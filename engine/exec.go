package main

import (
	"fmt"
	"go/types"
	"math/big"
	"sort"
	"strings"

	"golang.org/x/tools/go/ssa"
)

// ---- path termination signals (panics caught at the goroutine root) ----

type pathEnd struct {
	kind string // "assume", "violation", "unsupported", "unwind", "exit", "killed", "inconclusive", "internal"
	msg  string
}

func unsupported(msg string) pathEnd { return pathEnd{"unsupported", msg} }

type decision struct {
	chosen    int
	remaining []int
}

type inputRec struct {
	Kind string // atom, int, uint, bool, f64, f32, range, bytes
	Name string
	t    *Term   // scalar term (atom: rank)
	bs   []*Term // bytes
	W    int
	Conc int64 // range: chosen value
}

type region struct {
	key  string
	cond *Term
	only []string // when set: applies only to violations whose message contains one of these
}

func (r region) appliesTo(msg string) bool {
	if len(r.only) == 0 {
		return true
	}
	for _, o := range r.only {
		if strings.Contains(msg, o) {
			return true
		}
	}
	return false
}

type traceRec struct {
	label string
	vals  []Value
}

// RunConfig: bounds of one harness run (all of them are reported in the evidence).
type RunConfig struct {
	Harness      string // entry function name
	PkgDir       string
	Preempt      int  // preemption bound
	EnvEvents    int  // environment event bound (timer fires, ctx deadline)
	AllMapOrders bool // case-split map iteration orders
	Race         bool // happens-before race detection
	StepBound    int64
	MaxPaths     int64 // safety valve; exceeding it is an unwinding failure
	SleepSets    bool
	Solver       string // "" = z3, "cvc5"
	OneTrail     []int  // debugging: run exactly this decision vector
	Canonical    bool   // one canonical schedule (run-to-block, lowest goroutine first): schedules are not the subject
	Opaque       []string // external functions replaced by 'returns zero values' (recorded as stubs)
	Sequential   bool // harness is single-goroutine (native replay possible)
	Params       map[string]int
	AtomBytes    int  // > 0: arbitrary names (atoms) are drawn as strings of 0..AtomBytes symbolic ASCII bytes (fallback when the code inspects name content)
	AtomFallback int  // > 0: a content operation on an atom aborts the run so that it can be repeated with AtomBytes = AtomFallback
}

type Exec struct {
	prog   *ssa.Program
	cfg    *RunConfig
	solver *Solver
	sh     *Shared
	wid    int

	trail  []decision
	fixed  int // trail[:fixed] is the work item's prefix: never backtracked by this worker
	pos    int

	// per path
	consts     map[string]*Term
	constOrder []string
	nvars      int
	vars       []*Term
	inputs     []inputRec
	steps      int64
	regions    []region
	traces     []traceRec
	globals    map[*ssa.Global]*Cell
	sch        *schedState
	asserted   []*Term // path condition (for evaluation / witness)
	pathViol   bool
	pathNotes  []string
	coverHits  map[string]bool
	rndCount   map[*Cell]int
	hparams    map[string]int

	rndSources []*rndSource
	lastNow    *Term
	timerOf    map[*Cell]*timerState
	pools      map[*Cell][]Value // sync.Pool contents (per path)
	conds      map[*Cell]*condState
	globalRnd  *Cell // math/rand's process-global source (per path)
	negTimer   *Term // disjunction: some timer was armed (NewTimer/Reset) with a negative delay
	inStringer int // nesting of String()/Error() calls made on behalf of formatting
	utf8ok     map[*Term]*Term
	atomVCs    map[*Cell]*VC
	callSite   *ssa.Call
	probes     map[string][]probeRec
	inProbe    bool
	nsamples   int
	powMemo    []powRec
	ncross     int
	unitFloats map[*Term]bool
	vbounds    map[*Term]ival
	shared     int

	entryPkg *ssa.Package
	initFns  []*ssa.Function
	fninfo   map[*ssa.Function]*fnInfo

	st Stats
}

type Stats struct {
	Paths, Forks, Decisions           int64
	Obligations, Discharged           int64
	Violations, Known                 int64
	Assumes                           int64
	Unsupported, Unwind, Inconclusive int64
	Internal                          int64
	Steps                             int64
	Deadlocks                         int64
	Switches, VisibleOps              int64
	SleepPruned                       int64
	AssertReach                       map[string]int64
	Status                            map[string]int64
}

func (e *Exec) freshVar(name string, s Sort) *Term {
	n := fmt.Sprintf("%s!%d", sanitize(name), e.nvars)
	e.nvars++
	v := Var(n, s)
	e.vars = append(e.vars, v)
	return v
}

func sanitize(s string) string {
	var sb strings.Builder
	for _, r := range s {
		if (r >= 'a' && r <= 'z') || (r >= 'A' && r <= 'Z') || (r >= '0' && r <= '9') || r == '_' {
			sb.WriteRune(r)
		} else {
			sb.WriteRune('_')
		}
	}
	if sb.Len() == 0 {
		return "v"
	}
	return sb.String()
}

func (e *Exec) assertPC(t *Term) {
	if t.IsTrue() {
		return
	}
	e.asserted = append(e.asserted, t)
	e.refine(t, true)
	e.solver.Assert(t)
}

// ---- decisions ----

func (e *Exec) chooseN(n int, feasible func(i int) bool) int {
	if e.pos < len(e.trail) {
		d := e.trail[e.pos]
		e.solver.Decision(e.pos)
		e.pos++
		return d.chosen
	}
	var ok []int
	for i := 0; i < n; i++ {
		if feasible == nil || feasible(i) {
			ok = append(ok, i)
		}
	}
	if len(ok) == 0 {
		panic(pathEnd{"assume", "no feasible alternative"})
	}
	if len(ok) > 1 {
		e.st.Forks += int64(len(ok) - 1)
	}
	e.st.Decisions++
	e.trail = append(e.trail, decision{chosen: ok[0], remaining: ok[1:]})
	e.solver.Decision(e.pos)
	e.pos++
	return ok[0]
}

func (e *Exec) check(extra ...*Term) string {
	r := e.solver.Check(extra...)
	if r == "unknown" {
		e.st.Inconclusive++
		e.note("solver returned unknown")
		if e.solver.Broken {
			panic(pathEnd{"inconclusive", "solver process died"})
		}
	}
	return r
}

func (e *Exec) note(s string) {
	if len(e.pathNotes) < 8 {
		e.pathNotes = append(e.pathNotes, s)
	}
}

// decide forks on a symbolic condition.
func (e *Exec) decide(c *Term) bool {
	if c.IsConst() {
		return c.BoolVal()
	}
	if e.pos < len(e.trail) {
		d := e.trail[e.pos]
		e.solver.Decision(e.pos)
		e.pos++
		if d.chosen == 0 {
			e.assertPC(c)
			return true
		}
		e.assertPC(Not(c))
		return false
	}
	// discover: which sides are feasible?
	r0 := e.check(c)
	if r0 != "unknown" {
		e.solver.Pop()
	}
	sat0 := r0 != "unsat" // unknown: keep (over-approximate), flagged inconclusive
	sat1 := true
	if sat0 {
		r1 := e.check(Not(c))
		if r1 != "unknown" {
			e.solver.Pop()
		}
		sat1 = r1 != "unsat"
	}
	var ok []int
	if sat0 {
		ok = append(ok, 0)
	}
	if sat1 {
		ok = append(ok, 1)
	}
	if len(ok) == 2 {
		e.st.Forks++
	}
	e.st.Decisions++
	e.trail = append(e.trail, decision{chosen: ok[0], remaining: ok[1:]})
	e.solver.Decision(e.pos)
	e.pos++
	if ok[0] == 0 {
		e.assertPC(c)
		return true
	}
	e.assertPC(Not(c))
	return false
}

func (e *Exec) assume(c *Term) {
	if c.IsConst() {
		if !c.BoolVal() {
			panic(pathEnd{"assume", "assume false"})
		}
		return
	}
	if !e.decideAssume(c) {
		panic(pathEnd{"assume", "assume"})
	}
}

// decideAssume: like decide but only the true side is ever explored.
func (e *Exec) decideAssume(c *Term) bool {
	r := e.check(c)
	if r != "unknown" {
		e.solver.Pop()
	}
	if r == "unsat" {
		return false
	}
	e.assertPC(c)
	return true
}

// concretize case-splits a symbolic integer over [lo,hi] (inclusive).
func (e *Exec) concretize(t *Term, lo, hi int64, what string) int64 {
	if v, ok := t.ConstInt64(); ok {
		return v
	}
	if t.IsConst() {
		panic(unsupported("huge constant used as " + what))
	}
	if hi-lo > 64 {
		panic(unsupported(fmt.Sprintf("symbolic %s with range %d..%d too wide to case-split", what, lo, hi)))
	}
	k := e.chooseN(int(hi-lo+1), func(i int) bool {
		r := e.check(Eq(t, K(lo+int64(i))))
		if r != "unknown" {
			e.solver.Pop()
		}
		return r != "unsat"
	})
	v := lo + int64(k)
	e.assertPC(Eq(t, K(v)))
	return v
}

// backtrack: returns false when this worker's subtree is exhausted
func (e *Exec) backtrack() bool {
	for len(e.trail) > e.fixed {
		d := &e.trail[len(e.trail)-1]
		if len(d.remaining) > 0 {
			d.chosen = d.remaining[0]
			d.remaining = d.remaining[1:]
			return true
		}
		e.trail = e.trail[:len(e.trail)-1]
	}
	return false
}

// donate hands the shallowest open alternatives to other workers.
func (e *Exec) donate() {
	for i := e.fixed; i < len(e.trail); i++ {
		d := &e.trail[i]
		if len(d.remaining) == 0 {
			continue
		}
		for _, alt := range d.remaining {
			p := make([]int, i+1)
			for j := 0; j < i; j++ {
				p[j] = e.trail[j].chosen
			}
			p[i] = alt
			e.sh.push(p)
		}
		d.remaining = nil
		return
	}
}

// ---- strings ----

func (e *Exec) rank(s Str) *Term {
	if s.atom != nil {
		return s.atom
	}
	if s.isB {
		panic(unsupported("bytes string compared with atom"))
	}
	if t, ok := e.consts[s.conc]; ok {
		return t
	}
	var t *Term
	if s.conc == "" {
		t = K(0)
	} else {
		t = e.freshVar("lit", SInt)
		e.assertPC(Lt(K(0), t))
		for _, o := range e.constOrder {
			ot := e.consts[o]
			if o == "" {
				continue
			}
			// exactness side condition (DESIGN §3.4): no literal is another followed only by bytes <= 0x01
			if o < s.conc {
				e.assertPC(Lt(ot, t))
			} else {
				e.assertPC(Lt(t, ot))
			}
		}
	}
	e.consts[s.conc] = t
	e.constOrder = append(e.constOrder, s.conc)
	return t
}

// builtCheck: the order/equality of strings built from arbitrary names depends on the names'
// content (separators, prefixes), which the atom abstraction does not have: stop, so that the run
// is repeated with names as bounded byte strings (RunConfig.AtomFallback).
func builtCheck(a, b Str) {
	if a.built || b.built {
		panic(unsupported("comparison of a string built from atom strings"))
	}
}

func (e *Exec) strEq(a, b Str) *Term {
	builtCheck(a, b)
	if a.isConc() && b.isConc() {
		return B(a.conc == b.conc)
	}
	if a.isB || b.isB {
		return e.bytesEq(a, b)
	}
	return Eq(e.rank(a), e.rank(b))
}

func (e *Exec) strLt(a, b Str) *Term {
	builtCheck(a, b)
	if a.isConc() && b.isConc() {
		return B(a.conc < b.conc)
	}
	if a.isB || b.isB {
		return e.bytesLt(a, b)
	}
	return Lt(e.rank(a), e.rank(b))
}

func (e *Exec) toBytes(s Str) []*Term {
	if s.isB {
		return s.bytes
	}
	if s.atom != nil {
		panic(unsupported("content operation on atom string"))
	}
	r := make([]*Term, len(s.conc))
	for i := 0; i < len(s.conc); i++ {
		r[i] = K(int64(s.conc[i]))
	}
	return r
}

func (e *Exec) bytesEq(a, b Str) *Term {
	x, y := e.toBytes(a), e.toBytes(b)
	if len(x) != len(y) {
		return tFalse
	}
	r := tTrue
	for i := range x {
		r = And(r, Eq(x[i], y[i]))
	}
	return r
}

func (e *Exec) bytesLt(a, b Str) *Term {
	x, y := e.toBytes(a), e.toBytes(b)
	// lexicographic
	var rec func(i int) *Term
	rec = func(i int) *Term {
		if i >= len(x) {
			return B(i < len(y))
		}
		if i >= len(y) {
			return tFalse
		}
		return Or(Lt(x[i], y[i]), And(Eq(x[i], y[i]), rec(i+1)))
	}
	return rec(0)
}

func strFromBytes(bs []*Term) Str {
	all := true
	for _, b := range bs {
		if !b.IsConst() {
			all = false
			break
		}
	}
	if all {
		buf := make([]byte, len(bs))
		for i, b := range bs {
			buf[i] = byte(b.K)
		}
		return Str{conc: string(buf)}
	}
	return Str{bytes: bs, isB: true}
}

// ---- equality ----

func (e *Exec) eqVal(a, b Value) *Term {
	switch x := a.(type) {
	case *Term:
		return Eq(x, b.(*Term))
	case Str:
		return e.strEq(x, b.(Str))
	case *Cell:
		y, _ := b.(*Cell)
		return B(x == y)
	case *Map:
		y, _ := b.(*Map)
		return B(x == y)
	case *Closure:
		y, _ := b.(*Closure)
		return B(x == y) // only comparison with nil is legal in Go
	case *Chan:
		y, _ := b.(*Chan)
		return B(x == y)
	case Slice:
		y := b.(Slice)
		return B(x.arr == nil && y.arr == nil)
	case Iface:
		y, isI := b.(Iface)
		if !isI {
			if b == nil {
				return B(x.t == nil)
			}
			panic(unsupported("iface compared with non-iface"))
		}
		if x.t == nil || y.t == nil {
			return B(x.t == nil && y.t == nil)
		}
		if !types.Identical(x.t, y.t) {
			return tFalse
		}
		if xo, ok := x.v.(*opaqueErr); ok {
			return B(xo == y.v.(*opaqueErr))
		}
		return e.eqVal(x.v, y.v)
	case *StructObj:
		y := b.(*StructObj)
		r := tTrue
		for i := range x.fields {
			r = And(r, e.eqVal(x.fields[i].v, y.fields[i].v))
		}
		return r
	case *Array:
		y := b.(*Array)
		r := tTrue
		for i := range x.elems {
			r = And(r, e.eqVal(x.elems[i].v, y.elems[i].v))
		}
		return r
	case nil:
		return B(isNilValue(b))
	}
	panic(unsupported(fmt.Sprintf("eqVal %T", a)))
}

// ---- obligations and violations ----

type Violation struct {
	Harness string                 `json:"harness"`
	Kind    string                 `json:"kind"`
	Msg     string                 `json:"msg"`
	Site    string                 `json:"site"`
	Known   string                 `json:"known,omitempty"`
	Inputs  []map[string]interface{} `json:"inputs"`
	Trail   []int                  `json:"trail"`
	Count   int64                  `json:"count"`
	Stack   []string               `json:"stack,omitempty"`
	Sched   []string               `json:"schedule,omitempty"`
}

// obligation: `fail` is the condition (relative to the path condition) under which
// the obligation is violated. Discharged iff PC ∧ fail is unsat.
func (e *Exec) obligation(fail *Term, kind, msg string) {
	e.st.Obligations++
	if fail.IsFalse() {
		e.st.Discharged++
		return
	}
	r := e.check(fail)
	switch r {
	case "unsat":
		e.sampleCross("unsat")
		e.solver.Pop()
		e.st.Discharged++
		return
	case "unknown":
		// inconclusive, continue on the non-failing side
		if !fail.IsConst() {
			e.assertPC(Not(fail))
		}
		return
	}
	// sat: a violation. classify against known-finding regions.
	e.classifyViolation(fail, kind, msg)
	if fail.IsTrue() {
		panic(pathEnd{"violation", msg})
	}
	r2 := e.check(Not(fail))
	if r2 != "unknown" {
		e.solver.Pop()
	}
	if r2 == "unsat" {
		panic(pathEnd{"violation", msg})
	}
	e.assertPC(Not(fail))
}

// sampleCross keeps the script of a few decided obligations per worker for re-decision by the
// other installed solvers at the end of the run (DESIGN §4.4).
func (e *Exec) sampleCross(want string) {
	if e.ncross >= e.sh.crossPerWorker {
		return
	}
	// sample sparsely: obligations 1, 10, 100, ... and every 997th
	n := e.st.Obligations
	if !(n == 1 || n == 10 || n == 100 || n%997 == 0) {
		return
	}
	e.ncross++
	e.sh.addCross(crossSample{script: e.solver.ScriptSnapshot(), want: want, harness: e.cfg.Harness})
}

// classifyViolation is entered with the solver scope of Check(fail) open (sat).
func (e *Exec) classifyViolation(fail *Term, kind, msg string) {
	var listed []region
	for _, r := range e.regions {
		if e.sh.knownKeys[r.key] && r.appliesTo(msg) {
			listed = append(listed, r)
		}
	}
	if len(listed) == 0 {
		e.recordViolation(kind, msg, "")
		e.solver.Pop()
		return
	}
	e.solver.Pop()
	outside := fail
	for _, r := range listed {
		outside = And(outside, Not(r.cond))
	}
	if ro := e.check(outside); ro == "sat" {
		e.recordViolation(kind, msg, "")
		e.solver.Pop()
	} else if ro == "unsat" {
		e.solver.Pop()
	}
	for _, r := range listed {
		if rr := e.check(And(fail, r.cond)); rr == "sat" {
			e.recordViolation(kind, msg, r.key)
			e.solver.Pop()
		} else if rr == "unsat" {
			e.solver.Pop()
		}
	}
}

// recordViolation must be called with a sat solver scope open (model available).
func (e *Exec) recordViolation(kind, msg, known string) {
	if known == "" {
		e.st.Violations++
		e.pathViol = true
	} else {
		e.st.Known++
	}
	site := e.site()
	key := e.cfg.Harness + "|" + kind + "|" + msg + "|" + site + "|" + known
	if !e.sh.firstViolation(key) {
		return
	}
	v := &Violation{Harness: e.cfg.Harness, Kind: kind, Msg: msg, Site: site, Known: known, Count: 1}
	v.Inputs = e.concreteInputs()
	for _, d := range e.trail[:e.pos] {
		v.Trail = append(v.Trail, d.chosen)
	}
	v.Stack = e.stackStrings()
	if e.sch != nil {
		v.Sched = append(v.Sched, e.sch.log...)
	}
	e.sh.addViolation(key, v)
}

// concreteInputs evaluates every nondet input under the current model (solver scope open and sat).
func (e *Exec) concreteInputs() []map[string]interface{} {
	m := e.solver.Model(e.vars)
	return e.inputsUnderModel(m)
}

func (e *Exec) inputsUnderModel(m map[string]interface{}) []map[string]interface{} {
	memo := map[*Term]interface{}{}
	atomStr := e.realiseAtoms(m, memo)
	var out []map[string]interface{}
	for _, in := range e.inputs {
		r := map[string]interface{}{"kind": in.Kind, "name": in.Name}
		switch in.Kind {
		case "atom":
			if in.t == nil { // drawn as a bytes string (AtomBytes)
				bs := make([]byte, len(in.bs))
				for i, b := range in.bs {
					bs[i] = byte(b.Eval(m, memo).(*big.Int).Int64())
				}
				r["value"] = string(bs)
				break
			}
			rk := in.t.Eval(m, memo).(*big.Int)
			r["value"] = atomStr[rk.String()]
		case "int", "uint":
			r["value"] = in.t.Eval(m, memo).(*big.Int).String()
			r["w"] = in.W
		case "bool":
			r["value"] = in.t.Eval(m, memo).(bool)
		case "f64", "f32":
			r["value"] = fmt.Sprintf("%b", in.t.Eval(m, memo).(float64))
			r["show"] = fmt.Sprint(in.t.Eval(m, memo).(float64))
		case "range":
			r["value"] = in.Conc
		case "bytes":
			bs := make([]byte, len(in.bs))
			for i, b := range in.bs {
				bs[i] = byte(b.Eval(m, memo).(*big.Int).Int64())
			}
			r["value"] = string(bs)
		}
		out = append(out, r)
	}
	return out
}

// realiseAtoms maps rank values to real strings that realise the model's order
// among atoms and the literals in play (DESIGN §4.3).
func (e *Exec) realiseAtoms(m map[string]interface{}, memo map[*Term]interface{}) map[string]string {
	type lit struct {
		rank *big.Int
		s    string
	}
	var lits []lit
	for _, c := range e.constOrder {
		lits = append(lits, lit{e.consts[c].Eval(m, memo).(*big.Int), c})
	}
	if _, ok := e.consts[""]; !ok {
		lits = append(lits, lit{big.NewInt(0), ""})
	}
	sort.Slice(lits, func(i, j int) bool { return lits[i].rank.Cmp(lits[j].rank) < 0 })
	res := map[string]string{}
	for _, l := range lits {
		res[l.rank.String()] = l.s
	}
	// distinct atom ranks not equal to a literal
	var ranks []*big.Int
	seen := map[string]bool{}
	for _, in := range e.inputs {
		if in.Kind != "atom" || in.t == nil {
			continue
		}
		rk := in.t.Eval(m, memo).(*big.Int)
		if _, isLit := res[rk.String()]; isLit || seen[rk.String()] {
			continue
		}
		seen[rk.String()] = true
		ranks = append(ranks, rk)
	}
	sort.Slice(ranks, func(i, j int) bool { return ranks[i].Cmp(ranks[j]) < 0 })
	cnt := map[string]int{}
	for _, rk := range ranks {
		// greatest literal below rk
		lo := ""
		for _, l := range lits {
			if l.rank.Cmp(rk) < 0 {
				lo = l.s
			}
		}
		cnt[lo]++
		res[rk.String()] = fmt.Sprintf("%s\x01%03d", lo, cnt[lo])
	}
	return res
}

func (e *Exec) site() string {
	if e.sch == nil || e.sch.cur == nil {
		return "?"
	}
	st := e.sch.cur.stack
	// innermost non-harness-runtime function
	for i := len(st) - 1; i >= 0; i-- {
		n := st[i].String()
		if !strings.Contains(n, "zzverif") {
			return shortFn(n)
		}
	}
	return "?"
}

func shortFn(n string) string {
	return strings.ReplaceAll(n, "github.com/openconfig/gnmi/", "")
}

func (e *Exec) stackStrings() []string {
	if e.sch == nil || e.sch.cur == nil {
		return nil
	}
	var r []string
	st := e.sch.cur.stack
	for i := len(st) - 1; i >= 0 && len(r) < 12; i-- {
		r = append(r, shortFn(st[i].String()))
	}
	return r
}

var _ = ssa.NewProgram
