package main

// Parallel re-execution DFS over the decision tree: every worker owns a solver
// process and explores a subtree given by a decision prefix, donating open
// alternatives when other workers are hungry.

import (
	"fmt"
	"go/types"
	"os"
	"sort"
	"strings"
	"sync"
	"sync/atomic"
	"time"

	"golang.org/x/tools/go/ssa"
)

type Sample struct {
	Harness string                   `json:"harness"`
	Outcome string                   `json:"outcome"`
	Inputs  []map[string]interface{} `json:"inputs"`
	Traces  []string                 `json:"traces,omitempty"`
	Trail   []int                    `json:"trail,omitempty"`
}

type Shared struct {
	prog     *ssa.Program
	cfg      *RunConfig
	entry    *ssa.Function
	handlers map[string]handler
	byFn     sync.Map // *ssa.Function -> handler or nil marker
	opaqueFns map[string]*ssa.Function
	timeNow  *ssa.Function
	knownKeys map[string]bool
	traceSched bool

	mu        sync.Mutex
	cond      *sync.Cond
	queue     [][]int
	idle      int
	nworkers  int
	finished  bool
	hungry    int32
	paths     int64
	stop      int32

	vmu        sync.Mutex
	violations map[string]*Violation
	vorder     []string
	samples    []*Sample
	funcs      sync.Map
	stubs      sync.Map
	notes      map[string]int
	deadline   time.Time
	atomAbort  int32
	probeNames sync.Map
	crossPerWorker int
	cross      []crossSample
	oneShot    bool
}

type noHandler struct{}

func (sh *Shared) handlerFor(fn *ssa.Function) (handler, bool) {
	if v, ok := sh.byFn.Load(fn); ok {
		if h, ok := v.(handler); ok {
			return h, true
		}
		return nil, false
	}
	h := sh.lookupHandler(fn)
	if h == nil {
		h = sh.harnessStub(fn)
	}
	if h == nil {
		sh.byFn.Store(fn, noHandler{})
		return nil, false
	}
	sh.byFn.Store(fn, h)
	return h, true
}

// harnessStub: a harness function named Stub_<package name>_<function> (methods:
// Stub_<package name>_<receiver type>_<method>) replaces the external function; calls made from
// inside a Stub_ function itself reach the real one.
func (sh *Shared) harnessStub(fn *ssa.Function) handler {
	if sh.entry == nil || sh.entry.Pkg == nil {
		return nil
	}
	var pkgName, name string
	if fn.Pkg != nil && fn.Signature.Recv() == nil {
		pkgName, name = fn.Pkg.Pkg.Name(), fn.Name()
	} else if recv := fn.Signature.Recv(); recv != nil {
		t := recv.Type()
		if p, ok := t.(*types.Pointer); ok {
			t = p.Elem()
		}
		if n, ok := t.(*types.Named); ok && n.Obj().Pkg() != nil {
			pkgName, name = n.Obj().Pkg().Name(), n.Obj().Name()+"_"+fn.Name()
		}
	}
	if name == "" {
		return nil
	}
	stub := sh.entry.Pkg.Func("Stub_" + pkgName + "_" + name)
	if stub == nil {
		return nil
	}
	for _, o := range sh.cfg.Opaque {
		_ = o
	}
	return func(e *Exec, f *ssa.Function, args []Value) Value {
		// inside a stub the real function is meant
		st := e.sch.cur.stack
		if len(st) > 0 && strings.HasPrefix(st[len(st)-1].Name(), "Stub_") {
			if f.Blocks == nil {
				panic(unsupported("stub calls a function without body: " + f.String()))
			}
			return e.callReal(f, args)
		}
		return e.call(stub, args, nil)
	}
}

func (sh *Shared) lookupHandler(fn *ssa.Function) handler {
	name := fn.String()
	if h, ok := sh.handlers[name]; ok {
		return h
	}
	pkg := ""
	if fn.Pkg != nil {
		pkg = fn.Pkg.Pkg.Path()
	} else if fn.Signature.Recv() != nil {
		// methods of instantiated or external types: derive from the name
	}
	switch {
	case strings.HasPrefix(name, "github.com/golang/glog.") && fn.Signature.Variadic() && fn.Signature.Results().Len() == 0:
		// unconditional logging formats its operands (String()/Error() of in-repo types run)
		withFormat := strings.HasSuffix(fn.Name(), "f")
		return func(e *Exec, fn *ssa.Function, a []Value) Value {
			if withFormat && len(a) == 2 {
				if f, ok := a[0].(Str); ok {
					if va, ok := a[1].(Slice); ok {
						e.callStringers(f.conc, f.isConc(), va)
					}
				}
			} else if len(a) == 1 {
				if va, ok := a[0].(Slice); ok {
					e.callStringers("", false, va)
				}
			}
			return nil
		}
	case strings.HasPrefix(name, "github.com/golang/glog.") || strings.HasPrefix(name, "(github.com/golang/glog.Verbose).") || strings.HasPrefix(name, "(*github.com/golang/glog."):
		return noop
	case fn.Name() == "init" && fn.Pkg != nil && fn.Synthetic != "" && !runsInitPath(pkg):
		return noop
	case name == "(github.com/openconfig/gnmi/proto/gnmi.SubscriptionList_Mode).String":
		return func(e *Exec, fn *ssa.Function, a []Value) Value {
			if v, ok := a[0].(*Term).ConstInt64(); ok {
				switch v {
				case 0:
					return Str{conc: "STREAM"}
				case 1:
					return Str{conc: "ONCE"}
				case 2:
					return Str{conc: "POLL"}
				}
				return Str{conc: fmt.Sprint(v)}
			}
			return opaqueStr(e, "protostring")
		}
	case fn.Name() == "String" && (strings.Contains(pkg, "/proto/") || strings.HasSuffix(pkg, "/proto")) && fn.Signature.Recv() != nil:
		return func(e *Exec, fn *ssa.Function, a []Value) Value { return opaqueStr(e, "protostring") }
	}
	for _, o := range sh.cfg.Opaque {
		if o == name {
			return noop
		}
	}
	switch name {
	case "context.Background", "context.TODO":
		return redirectTo("Background")
	case "context.WithCancel":
		return redirectTo("WithCancel")
	case "context.WithTimeout":
		return redirectTo("WithTimeout")
	case "context.WithDeadline":
		return redirectTo("WithDeadline")
	case "context.WithValue":
		return redirectTo("WithValue")
	case "context.WithCancelCause":
		return redirectTo("WithCancelCause")
	case "context.Cause":
		return redirectTo("Cause")
	case "context.WithoutCancel":
		return redirectTo("WithoutCancel")
	case "context.AfterFunc":
		return redirectTo("AfterFunc")
	case "internal/bytealg.IndexByte":
		return redirectTo("BytealgIndexByte")
	case "internal/bytealg.IndexByteString":
		return redirectTo("BytealgIndexByteString")
	case "internal/bytealg.LastIndexByte":
		return redirectTo("BytealgLastIndexByte")
	case "internal/bytealg.LastIndexByteString":
		return redirectTo("BytealgLastIndexByteString")
	case "internal/bytealg.Count":
		return redirectTo("BytealgCount")
	case "internal/bytealg.CountString":
		return redirectTo("BytealgCountString")
	case "internal/bytealg.Equal":
		return redirectTo("BytealgEqual")
	case "internal/bytealg.Compare":
		return redirectTo("BytealgCompare")
	case "internal/bytealg.Index":
		return redirectTo("BytealgIndex")
	case "internal/bytealg.IndexString":
		return redirectTo("BytealgIndexString")
	}
	return nil
}

func redirectTo(target string) handler {
	return func(e *Exec, fn *ssa.Function, args []Value) Value {
		p := e.prog.ImportedPackage(zzPkg)
		if p == nil {
			panic(unsupported("runtime package not loaded for " + target))
		}
		f := p.Func(target)
		if f == nil {
			panic(unsupported("runtime model missing: " + target))
		}
		return e.call(f, args, nil)
	}
}

func runsInitPath(path string) bool {
	if !strings.HasPrefix(path, "github.com/openconfig/gnmi") {
		return false
	}
	if strings.Contains(path, "/proto/") || strings.HasSuffix(path, "/proto") {
		return false
	}
	return true
}

func (sh *Shared) markFunc(fn *ssa.Function) {
	if _, ok := sh.funcs.Load(fn); !ok {
		sh.funcs.Store(fn, true)
	}
}

func (sh *Shared) markStub(fn *ssa.Function) {
	if _, ok := sh.stubs.Load(fn); !ok {
		sh.stubs.Store(fn, true)
	}
}

func (sh *Shared) push(p []int) {
	sh.mu.Lock()
	sh.queue = append(sh.queue, p)
	sh.mu.Unlock()
	sh.cond.Signal()
}

// pop blocks until work is available or exploration is complete.
func (sh *Shared) pop() ([]int, bool) {
	sh.mu.Lock()
	defer sh.mu.Unlock()
	for {
		if len(sh.queue) > 0 {
			p := sh.queue[len(sh.queue)-1]
			sh.queue = sh.queue[:len(sh.queue)-1]
			return p, true
		}
		if sh.finished {
			return nil, false
		}
		sh.idle++
		atomic.StoreInt32(&sh.hungry, int32(sh.idle))
		if sh.idle == sh.nworkers {
			sh.finished = true
			sh.cond.Broadcast()
			return nil, false
		}
		sh.cond.Wait()
		sh.idle--
		atomic.StoreInt32(&sh.hungry, int32(sh.idle))
	}
}

func (sh *Shared) firstViolation(key string) bool {
	sh.vmu.Lock()
	defer sh.vmu.Unlock()
	if v, ok := sh.violations[key]; ok {
		v.Count++
		return false
	}
	return true
}

func (sh *Shared) addViolation(key string, v *Violation) {
	sh.vmu.Lock()
	defer sh.vmu.Unlock()
	if o, ok := sh.violations[key]; ok {
		o.Count++
		return
	}
	sh.violations[key] = v
	sh.vorder = append(sh.vorder, key)
}

type crossSample struct {
	script, want, harness string
}

func (sh *Shared) addCross(c crossSample) {
	sh.vmu.Lock()
	sh.cross = append(sh.cross, c)
	sh.vmu.Unlock()
}

func (sh *Shared) addNote(n string) {
	sh.vmu.Lock()
	if sh.notes == nil {
		sh.notes = map[string]int{}
	}
	sh.notes[n]++
	sh.vmu.Unlock()
}

type RunResult struct {
	Cfg        *RunConfig
	Stats      Stats
	Violations []*Violation
	Samples    []*Sample
	Funcs      []string
	Stubs      []string
	Notes      map[string]int
	Wall       time.Duration
	SolverQ    int
	SolverT    time.Duration
	TimedOut   bool
	AtomAbort  bool // the run stopped at a content operation on an atom (see RunConfig.AtomFallback)
	Cross      []crossSample
	spec       *RunSpec
}

func newExec(sh *Shared, wid int) *Exec {
	var sv *Solver
	if sh.cfg.Solver == "cvc5" {
		sv = NewSolver("cvc5", "--incremental", "--tlimit-per=30000")
	} else {
		sv = NewSolver()
	}
	e := &Exec{prog: sh.prog, cfg: sh.cfg, sh: sh, wid: wid, solver: sv, fninfo: map[*ssa.Function]*fnInfo{}}
	e.entryPkg = sh.entry.Pkg
	if init := sh.entry.Pkg.Func("init"); init != nil {
		e.initFns = append(e.initFns, init)
	}
	e.st.Status = map[string]int64{}
	e.st.AssertReach = map[string]int64{}
	return e
}

func (e *Exec) resetPath() {
	e.pos = 0
	e.consts = map[string]*Term{}
	e.constOrder = nil
	e.nvars = 0
	e.vars = nil
	e.inputs = nil
	e.steps = 0
	e.regions = nil
	e.traces = nil
	e.globals = map[*ssa.Global]*Cell{}
	e.asserted = nil
	e.pathViol = false
	e.pathNotes = nil
	e.rndSources = nil
	e.lastNow = nil
	e.timerOf = map[*Cell]*timerState{}
	e.pools = nil
	e.conds = nil
	e.globalRnd = nil
	e.negTimer = nil
	e.utf8ok = map[*Term]*Term{}
	e.atomVCs = nil
	e.probes = nil
	e.powMemo = nil
	e.unitFloats = nil
	e.vbounds = map[*Term]ival{}
	e.solver.StartPath(e.shared)
}

func (e *Exec) worker(wg *sync.WaitGroup) {
	defer wg.Done()
	defer e.solver.Close()
	sh := e.sh
	for {
		prefix, ok := sh.pop()
		if !ok {
			return
		}
		e.trail = e.trail[:0]
		for _, c := range prefix {
			e.trail = append(e.trail, decision{chosen: c})
		}
		e.fixed = len(prefix)
		e.shared = -1
		for {
			if atomic.LoadInt32(&sh.stop) != 0 {
				sh.mu.Lock()
				sh.finished = true
				sh.cond.Broadcast()
				sh.mu.Unlock()
				return
			}
			e.resetPath()
			pe := e.runPath(sh.entry, &Cell{v: &StructObj{}})
			e.finishedPath(pe)
			n := atomic.AddInt64(&sh.paths, 1)
			if sh.cfg.MaxPaths > 0 && n > sh.cfg.MaxPaths {
				e.st.Unwind++
				sh.addNote("path bound exceeded")
				atomic.StoreInt32(&sh.stop, 1)
			}
			if !sh.deadline.IsZero() && time.Now().After(sh.deadline) {
				e.st.Unwind++
				sh.addNote("time budget exceeded")
				atomic.StoreInt32(&sh.stop, 1)
			}
			if sh.oneShot {
				fmt.Println("PATH END:", pe.kind, pe.msg)
				for _, l := range e.sch.log {
					fmt.Println("   ", l)
				}
				break
			}
			if atomic.LoadInt32(&sh.hungry) > 0 {
				e.donate()
			}
			if !e.backtrack() {
				break
			}
			e.shared = len(e.trail) - 1
		}
	}
}

func (e *Exec) finishedPath(pe pathEnd) {
	e.st.Paths++
	e.st.Steps += e.steps
	if e.sch != nil {
		e.st.Switches += int64(e.sch.switches)
		e.st.VisibleOps += int64(e.sch.visibleOps)
	}
	// the replayed prefix must have been fully consumed
	if e.pos < len(e.trail) && pe.kind == "ok" {
		e.st.Internal++
		e.sh.addNote("non-deterministic replay: decision prefix not consumed")
	}
	e.trail = e.trail[:e.pos]
	e.st.Status[pe.kind]++
	switch pe.kind {
	case "ok":
		e.maybeSample("ok")
	case "assume", "exit":
	case "violation":
	case "unsupported":
		e.st.Unsupported++
		e.sh.addNote("unsupported: " + pe.msg)
		if e.cfg.AtomFallback > 0 && e.cfg.AtomBytes == 0 && strings.Contains(pe.msg, "atom") {
			// the code inspects the content of a name: the atom abstraction does not apply;
			// stop and let the caller repeat the run with names as bounded byte strings
			atomic.StoreInt32(&e.sh.atomAbort, 1)
			atomic.StoreInt32(&e.sh.stop, 1)
		}
	case "unwind":
		e.st.Unwind++
		e.sh.addNote("unwinding failure: " + pe.msg)
	case "inconclusive":
		e.sh.addNote("inconclusive: " + pe.msg)
	case "internal":
		e.st.Internal++
		e.sh.addNote("internal: " + pe.msg)
		if os.Getenv("VERIF_DEBUG") != "" {
			fmt.Fprintln(os.Stderr, "INTERNAL:", pe.msg)
		}
	default:
		e.st.Internal++
		e.sh.addNote("path end " + pe.kind + ": " + pe.msg)
	}
	for _, n := range e.pathNotes {
		e.sh.addNote(n)
	}
}

// maybeSample concretises a completed path into a witness (first few per worker).
func (e *Exec) maybeSample(outcome string) {
	if e.nsamples >= e.sh.cfgSamples() {
		return
	}
	r := e.solver.Check()
	if r != "sat" {
		if r == "unsat" {
			e.solver.Pop()
		}
		return
	}
	m := e.solver.Model(e.vars)
	e.solver.Pop()
	e.nsamples++
	memo := map[*Term]interface{}{}
	atoms := e.realiseAtoms(m, memo)
	s := &Sample{Harness: e.cfg.Harness, Outcome: outcome, Inputs: e.inputsUnderModel(m)}
	for _, tr := range e.traces {
		var parts []string
		for _, v := range tr.vals {
			parts = append(parts, e.traceValue(v, m, memo, atoms))
		}
		s.Traces = append(s.Traces, tr.label+"="+strings.Join(parts, ","))
	}
	for _, d := range e.trail[:e.pos] {
		s.Trail = append(s.Trail, d.chosen)
	}
	e.sh.vmu.Lock()
	e.sh.samples = append(e.sh.samples, s)
	e.sh.vmu.Unlock()
}

func (sh *Shared) cfgSamples() int { return 2 }

func mergeStats(dst *Stats, s *Stats) {
	dst.Paths += s.Paths
	dst.Forks += s.Forks
	dst.Decisions += s.Decisions
	dst.Obligations += s.Obligations
	dst.Discharged += s.Discharged
	dst.Violations += s.Violations
	dst.Known += s.Known
	dst.Assumes += s.Assumes
	dst.Unsupported += s.Unsupported
	dst.Unwind += s.Unwind
	dst.Inconclusive += s.Inconclusive
	dst.Internal += s.Internal
	dst.Steps += s.Steps
	dst.Deadlocks += s.Deadlocks
	dst.Switches += s.Switches
	dst.VisibleOps += s.VisibleOps
	dst.SleepPruned += s.SleepPruned
	if dst.AssertReach == nil {
		dst.AssertReach = map[string]int64{}
		dst.Status = map[string]int64{}
	}
	for k, v := range s.AssertReach {
		dst.AssertReach[k] += v
	}
	for k, v := range s.Status {
		dst.Status[k] += v
	}
}

func runHarness(prog *ssa.Program, entry *ssa.Function, cfg *RunConfig, handlers map[string]handler, known map[string]bool, nworkers int, budget time.Duration) *RunResult {
	sh := &Shared{prog: prog, cfg: cfg, entry: entry, handlers: handlers, knownKeys: known, nworkers: nworkers,
		violations: map[string]*Violation{}, traceSched: !cfg.Sequential}
	sh.cond = sync.NewCond(&sh.mu)
	sh.crossPerWorker = 2
	if cfg.Solver == "cvc5" {
		sh.crossPerWorker = 0
	}
	sh.queue = [][]int{{}}
	if cfg.OneTrail != nil {
		sh.queue = [][]int{cfg.OneTrail}
		sh.oneShot = true
	}
	if budget > 0 {
		sh.deadline = time.Now().Add(budget)
	}
	sh.opaqueFns = map[string]*ssa.Function{}
	errT := types_errorMethodSig()
	f := prog.NewFunction("opaqueError.Error", errT, "engine")
	sh.opaqueFns["Error"] = f
	sh.byFn.Store(f, handler(func(e *Exec, fn *ssa.Function, a []Value) Value {
		return opaqueStr(e, "errtext")
	}))
	fa := prog.NewFunction("reflect.Type.AssignableTo", errT, "engine")
	sh.opaqueFns["reflect.Type.AssignableTo"] = fa
	sh.byFn.Store(fa, handler(func(e *Exec, fn *ssa.Function, a []Value) Value {
		x, ok1 := a[0].(*reflType)
		yi, _ := a[1].(Iface)
		y, ok2 := yi.v.(*reflType)
		if !ok1 || !ok2 {
			panic(unsupported("reflect.Type.AssignableTo on unknown type"))
		}
		if x.t == opaqueErrType {
			return tFalse
		}
		return B(types.AssignableTo(x.t, y.t))
	}))
	t0 := time.Now()
	var wg sync.WaitGroup
	execs := make([]*Exec, nworkers)
	for i := range execs {
		execs[i] = newExec(sh, i)
		wg.Add(1)
		go execs[i].worker(&wg)
	}
	wg.Wait()
	res := &RunResult{Cfg: cfg, Wall: time.Since(t0), Notes: sh.notes, AtomAbort: atomic.LoadInt32(&sh.atomAbort) != 0}
	for _, e := range execs {
		mergeStats(&res.Stats, &e.st)
		res.SolverQ += e.solver.Queries
		res.SolverT += e.solver.Time
	}
	for _, k := range sh.vorder {
		res.Violations = append(res.Violations, sh.violations[k])
	}
	res.Samples = sh.samples
	res.Cross = sh.cross
	sh.funcs.Range(func(k, _ interface{}) bool {
		fn := k.(*ssa.Function)
		if fn.Pkg != nil && runsInitPath(fn.Pkg.Pkg.Path()) && !strings.Contains(fn.Pkg.Pkg.Path(), "zzverif") {
			res.Funcs = append(res.Funcs, shortFn(fn.String()))
		}
		return true
	})
	sort.Strings(res.Funcs)
	sh.stubs.Range(func(k, _ interface{}) bool {
		n := k.(*ssa.Function).String()
		if !strings.Contains(n, "zzverif") {
			res.Stubs = append(res.Stubs, n)
		}
		return true
	})
	sort.Strings(res.Stubs)
	res.TimedOut = atomic.LoadInt32(&sh.stop) != 0
	return res
}
