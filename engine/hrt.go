package main

// Intercepts of the harness runtime (zzverif.H): the declared "nondet" functions,
// Assume/Assert, regions of known findings, traces, bounds parameters.

import (
	"fmt"
	"math/big"
	"strings"

	"golang.org/x/tools/go/ssa"
)

func concStrArg(v Value) string {
	s, ok := v.(Str)
	if !ok || !s.isConc() {
		panic(unsupported("harness runtime: label must be a constant string"))
	}
	return s.conc
}

func (e *Exec) intInput(name string, w int, signed bool) *Term {
	kind := "int"
	if !signed {
		kind = "uint"
	}
	t := e.freshVar("i_"+name, SInt)
	if signed {
		e.assertPC(Le(KBig(new(big.Int).Neg(pow2[w-1])), t))
		e.assertPC(Lt(t, KBig(pow2[w-1])))
	} else {
		e.assertPC(Le(K(0), t))
		e.assertPC(Lt(t, KBig(pow2[w])))
	}
	e.inputs = append(e.inputs, inputRec{Kind: kind, Name: name, t: t, W: w})
	r := typeRange(w, signed)
	e.vbounds[t] = r
	return t
}

func buildHarnessHandlers(h map[string]handler) {
	H := "(*" + zzPkg + ".H)."
	h[H+"Atom"] = func(e *Exec, fn *ssa.Function, a []Value) Value {
		name := concStrArg(a[1])
		if nb := e.cfg.AtomBytes; nb > 0 {
			n := e.chooseN(nb+1, nil)
			bs := make([]*Term, n)
			for i := range bs {
				b := e.freshVar(fmt.Sprintf("y_%s_%d", name, i), SInt)
				e.assertPC(Le(K(1), b))
				e.assertPC(Lt(b, K(128)))
				bs[i] = b
			}
			e.inputs = append(e.inputs, inputRec{Kind: "atom", Name: name, bs: bs})
			if n == 0 {
				return Str{}
			}
			return Str{bytes: bs, isB: true}
		}
		t := e.freshVar("a_"+name, SInt)
		e.assertPC(Le(K(0), t))
		e.inputs = append(e.inputs, inputRec{Kind: "atom", Name: name, t: t})
		return Str{atom: t}
	}
	h[H+"Int64"] = func(e *Exec, fn *ssa.Function, a []Value) Value { return e.intInput(concStrArg(a[1]), 64, true) }
	h[H+"Int32"] = func(e *Exec, fn *ssa.Function, a []Value) Value { return e.intInput(concStrArg(a[1]), 32, true) }
	h[H+"Uint64"] = func(e *Exec, fn *ssa.Function, a []Value) Value { return e.intInput(concStrArg(a[1]), 64, false) }
	h[H+"Uint32"] = func(e *Exec, fn *ssa.Function, a []Value) Value { return e.intInput(concStrArg(a[1]), 32, false) }
	h[H+"Byte"] = func(e *Exec, fn *ssa.Function, a []Value) Value { return e.intInput(concStrArg(a[1]), 8, false) }
	h[H+"Bool"] = func(e *Exec, fn *ssa.Function, a []Value) Value {
		name := concStrArg(a[1])
		t := e.freshVar("b_"+name, SBool)
		e.inputs = append(e.inputs, inputRec{Kind: "bool", Name: name, t: t})
		return t
	}
	h[H+"Float64"] = func(e *Exec, fn *ssa.Function, a []Value) Value {
		name := concStrArg(a[1])
		t := e.freshVar("f_"+name, SF64)
		e.inputs = append(e.inputs, inputRec{Kind: "f64", Name: name, t: t})
		return t
	}
	h[H+"Float32"] = func(e *Exec, fn *ssa.Function, a []Value) Value {
		name := concStrArg(a[1])
		t := e.freshVar("f_"+name, SF32)
		e.inputs = append(e.inputs, inputRec{Kind: "f32", Name: name, t: t})
		return t
	}
	h[H+"Range"] = func(e *Exec, fn *ssa.Function, a []Value) Value {
		name := concStrArg(a[1])
		lo, ok1 := a[2].(*Term).ConstInt64()
		hi, ok2 := a[3].(*Term).ConstInt64()
		if !ok1 || !ok2 || hi < lo {
			panic(unsupported("Range bounds must be concrete and non-empty"))
		}
		k := e.chooseN(int(hi-lo+1), nil)
		v := lo + int64(k)
		e.inputs = append(e.inputs, inputRec{Kind: "range", Name: name, Conc: v})
		return K(v)
	}
	h[H+"Bytes"] = func(e *Exec, fn *ssa.Function, a []Value) Value {
		name := concStrArg(a[1])
		maxLen, _ := a[2].(*Term).ConstInt64()
		n := e.chooseN(int(maxLen+1), nil)
		bs := make([]*Term, n)
		for i := range bs {
			b := e.freshVar(fmt.Sprintf("y_%s_%d", name, i), SInt)
			e.assertPC(Le(K(1), b)) // ASCII, NUL excluded (stated bound)
			e.assertPC(Lt(b, K(128)))
			bs[i] = b
		}
		e.inputs = append(e.inputs, inputRec{Kind: "bytes", Name: name, bs: bs})
		if n == 0 {
			return Str{}
		}
		return Str{bytes: bs, isB: true}
	}
	h[H+"Assume"] = func(e *Exec, fn *ssa.Function, a []Value) Value {
		e.st.Assumes++
		e.assume(a[1].(*Term))
		return nil
	}
	h[H+"Assert"] = func(e *Exec, fn *ssa.Function, a []Value) Value {
		msg := concStrArg(a[2])
		e.reach(msg)
		e.obligation(Not(a[1].(*Term)), "assert", msg)
		return nil
	}
	h[H+"Fail"] = func(e *Exec, fn *ssa.Function, a []Value) Value {
		msg := concStrArg(a[1])
		e.reach(msg)
		e.obligation(tTrue, "assert", msg)
		return nil
	}
	h[H+"Known"] = func(e *Exec, fn *ssa.Function, a []Value) Value {
		r := region{key: concStrArg(a[1]), cond: a[2].(*Term)}
		if len(a) > 3 {
			sl := a[3].(Slice)
			for i := 0; i < sl.len; i++ {
				r.only = append(r.only, concStrArg(sl.arr.elems[sl.off+i].v))
			}
		}
		e.regions = append(e.regions, r)
		return nil
	}
	h[H+"Cover"] = func(e *Exec, fn *ssa.Function, a []Value) Value {
		e.reach("cover:" + concStrArg(a[1]))
		return nil
	}
	h[H+"Param"] = func(e *Exec, fn *ssa.Function, a []Value) Value {
		name := concStrArg(a[1])
		if v, ok := e.cfg.Params[name]; ok {
			return K(int64(v))
		}
		return a[2]
	}
	h[H+"Trace"] = func(e *Exec, fn *ssa.Function, a []Value) Value {
		sl := a[2].(Slice)
		tr := traceRec{label: concStrArg(a[1])}
		for i := 0; i < sl.len; i++ {
			tr.vals = append(tr.vals, sl.arr.elems[sl.off+i].v)
		}
		e.traces = append(e.traces, tr)
		return nil
	}
	h[H+"Quiesce"] = func(e *Exec, fn *ssa.Function, a []Value) Value {
		s := e.sch
		me := s.cur
		e.yield(func() bool {
			for _, o := range s.gs {
				if o != me && !o.done && !o.env && o.enabled() {
					return false
				}
			}
			return true
		}, nil)
		e.observeAll()
		return nil
	}
	h[H+"QuiesceAll"] = func(e *Exec, fn *ssa.Function, a []Value) Value {
		// like Quiesce, but pending environment events (armed timers within the event bound) fire first
		s := e.sch
		me := s.cur
		e.yield(func() bool {
			for _, o := range s.gs {
				if o == me || o.done || !o.enabled() {
					continue
				}
				if !o.env || s.envEvents < e.cfg.EnvEvents {
					return false
				}
			}
			return true
		}, nil)
		e.observeAll()
		return nil
	}
	h[H+"AwaitBegin"] = func(e *Exec, fn *ssa.Function, a []Value) Value { e.sch.cur.awaiting = true; return nil }
	h[H+"AwaitEnd"] = func(e *Exec, fn *ssa.Function, a []Value) Value { e.sch.cur.awaiting = false; return nil }
	h[H+"Yield"] = func(e *Exec, fn *ssa.Function, a []Value) Value {
		e.yield(func() bool { return true }, nil)
		return nil
	}
	h[H+"ArmedTimers"] = func(e *Exec, fn *ssa.Function, a []Value) Value {
		n := 0
		for _, t := range e.sch.timers {
			if t.armed {
				n++
			}
		}
		return K(int64(n))
	}
	h[H+"NegativeTimerDelay"] = func(e *Exec, fn *ssa.Function, a []Value) Value {
		if e.negTimer == nil {
			return tFalse
		}
		return e.negTimer
	}
	h[H+"HeldLocks"] = func(e *Exec, fn *ssa.Function, a []Value) Value { return K(int64(e.sch.cur.held)) }
	h[H+"Symbolic"] = func(e *Exec, fn *ssa.Function, a []Value) Value { return tTrue }
	h[H+"GoID"] = func(e *Exec, fn *ssa.Function, a []Value) Value { return K(int64(e.sch.cur.id)) }
	h[H+"EnvEvents"] = func(e *Exec, fn *ssa.Function, a []Value) Value { return K(int64(e.sch.envEvents)) }
	h[H+"Blocked"] = func(e *Exec, fn *ssa.Function, a []Value) Value {
		// number of live non-environment goroutines that are currently not enabled
		n := 0
		for _, o := range e.sch.gs {
			if o != e.sch.cur && !o.done && !o.env && !o.enabled() {
				n++
			}
		}
		return K(int64(n))
	}
	h[H+"SameBacking"] = func(e *Exec, fn *ssa.Function, a []Value) Value {
		x, ok1 := a[1].(Iface).v.(Slice)
		y, ok2 := a[2].(Iface).v.(Slice)
		if !ok1 || !ok2 {
			return tFalse
		}
		return B(x.arr != nil && x.arr == y.arr)
	}
}

func buildConnectives(h map[string]handler) {
	fold := func(and bool) handler {
		return func(e *Exec, fn *ssa.Function, a []Value) Value {
			sl := a[0].(Slice)
			r := B(and)
			for i := 0; i < sl.len; i++ {
				t := sl.arr.elems[sl.off+i].v.(*Term)
				if and {
					r = And(r, t)
				} else {
					r = Or(r, t)
				}
			}
			return r
		}
	}
	h[zzPkg+".And"] = fold(true)
	h[zzPkg+".Or"] = fold(false)
	h[zzPkg+".Implies"] = func(e *Exec, fn *ssa.Function, a []Value) Value { return Implies(a[0].(*Term), a[1].(*Term)) }
	h[zzPkg+".IteInt"] = func(e *Exec, fn *ssa.Function, a []Value) Value { return Ite(a[0].(*Term), a[1].(*Term), a[2].(*Term)) }
}

func (e *Exec) reach(label string) {
	if e.st.AssertReach == nil {
		e.st.AssertReach = map[string]int64{}
	}
	e.st.AssertReach[label]++
}

// traceValue renders a traced value under a model, in the same format as the native runtime.
func (e *Exec) traceValue(v Value, m map[string]interface{}, memo map[*Term]interface{}, atoms map[string]string) string {
	switch x := v.(type) {
	case Iface:
		if x.t == nil {
			return "<nil>"
		}
		if _, ok := x.v.(*opaqueErr); ok {
			return "<error>"
		}
		if strings.HasSuffix(x.t.String(), "error") {
			return "<error>"
		}
		return e.traceValue(x.v, m, memo, atoms)
	case *Term:
		switch r := x.Eval(m, memo).(type) {
		case *big.Int:
			return r.String()
		case bool:
			return fmt.Sprint(r)
		case float64:
			return fmt.Sprintf("%b", r)
		}
	case Str:
		switch {
		case x.atom != nil:
			rk := x.atom.Eval(m, memo).(*big.Int)
			if s, ok := atoms[rk.String()]; ok {
				return fmt.Sprintf("%q", s)
			}
			return "<opaque>"
		case x.isB:
			bs := make([]byte, len(x.bytes))
			for i, b := range x.bytes {
				bs[i] = byte(b.Eval(m, memo).(*big.Int).Int64())
			}
			return fmt.Sprintf("%q", string(bs))
		}
		return fmt.Sprintf("%q", x.conc)
	case *Cell:
		if x == nil {
			return "<nil>"
		}
		return "<ptr>"
	case Slice:
		var parts []string
		for i := 0; i < x.len; i++ {
			parts = append(parts, e.traceValue(x.arr.elems[x.off+i].v, m, memo, atoms))
		}
		return "[" + strings.Join(parts, " ") + "]"
	}
	return fmt.Sprintf("<%T>", v)
}

// observeAll: a quiescent observation by the harness is ordered after everything that happened
// (it is not part of the program under test): join every goroutine's clock.
func (e *Exec) observeAll() {
	if !e.cfg.Race {
		return
	}
	vc := e.gvc()
	for _, o := range e.sch.gs {
		if o.vc != nil {
			vc.join(o.vc)
		}
	}
}
