package main

import (
	"fmt"
	"go/constant"
	"go/token"
	"go/types"
	"math/big"
	"strings"

	"golang.org/x/tools/go/ssa"
)

type fnInfo struct {
	idx map[ssa.Value]int
	n   int
}

func (e *Exec) info(fn *ssa.Function) *fnInfo {
	if fi, ok := e.fninfo[fn]; ok {
		return fi
	}
	fi := &fnInfo{idx: map[ssa.Value]int{}}
	add := func(v ssa.Value) {
		fi.idx[v] = fi.n
		fi.n++
	}
	for _, p := range fn.Params {
		add(p)
	}
	for _, f := range fn.FreeVars {
		add(f)
	}
	for _, b := range fn.Blocks {
		for _, in := range b.Instrs {
			if v, ok := in.(ssa.Value); ok {
				add(v)
			}
		}
	}
	e.fninfo[fn] = fi
	return fi
}

type frame struct {
	fn     *ssa.Function
	fi     *fnInfo
	env    []Value
	defers []func()
	prev   *ssa.BasicBlock
}

func (e *Exec) get(fr *frame, v ssa.Value) Value {
	switch x := v.(type) {
	case *ssa.Const:
		return e.constVal(x)
	case *ssa.Function:
		return &Closure{fn: x}
	case *ssa.Global:
		return e.global(x)
	case *ssa.Builtin:
		return x
	}
	i, ok := fr.fi.idx[v]
	if !ok {
		panic(pathEnd{"internal", fmt.Sprintf("no slot for %s in %s", v.Name(), fr.fn)})
	}
	return fr.env[i]
}

func (e *Exec) global(x *ssa.Global) *Cell {
	c, ok := e.globals[x]
	if !ok {
		et := x.Type().(*types.Pointer).Elem()
		c = &Cell{v: e.zero(et)}
		if x.Pkg != nil && !e.runsInit(x.Pkg.Pkg.Path()) {
			// package whose init is not executed: sentinel errors are materialised as
			// distinct opaque objects so that identity comparisons behave as at run time
			if types.Identical(et, types.Universe.Lookup("error").Type()) {
				c.v = mkOpaqueErr(x.Pkg.Pkg.Name()+"."+x.Name(), nil)
			}
		}
		e.globals[x] = c
	}
	return c
}

// runsInit: package initialisers executed by the engine (in-repo, non-generated).
func (e *Exec) runsInit(path string) bool {
	if !strings.HasPrefix(path, "github.com/openconfig/gnmi") {
		return false
	}
	if strings.Contains(path, "/proto/") || strings.HasSuffix(path, "/proto") {
		return false
	}
	return true
}

func (e *Exec) constVal(c *ssa.Const) Value {
	if c.Value == nil {
		return e.zero(c.Type())
	}
	switch u := c.Type().Underlying().(type) {
	case *types.Basic:
		switch {
		case u.Info()&types.IsBoolean != 0:
			return B(constant.BoolVal(c.Value))
		case u.Info()&types.IsString != 0:
			return Str{conc: constant.StringVal(c.Value)}
		case u.Info()&types.IsInteger != 0:
			if i, ok := constant.Int64Val(constant.ToInt(c.Value)); ok {
				return K(i)
			}
			b, _ := new(big.Int).SetString(constant.ToInt(c.Value).ExactString(), 10)
			return KBig(b)
		case u.Info()&types.IsFloat != 0:
			f, _ := constant.Float64Val(c.Value)
			return KF(f, sortOf(c.Type()))
		}
	}
	panic(unsupported("const " + c.String()))
}

func (e *Exec) curG() *G { return e.sch.cur }

// callReal executes fn's body even if a handler is registered for it.
func (e *Exec) callReal(fn *ssa.Function, args []Value) Value {
	return e.callBody(fn, args, nil)
}

func (e *Exec) call(fn *ssa.Function, args []Value, free []Value) Value {
	if r, ok := e.intrinsic(fn, args, free); ok {
		return r
	}
	return e.callBody(fn, args, free)
}

func (e *Exec) callBody(fn *ssa.Function, args []Value, free []Value) Value {
	if fn.Blocks == nil {
		panic(unsupported("call of function without body: " + fn.String()))
	}
	g := e.curG()
	if len(g.stack) > 400 {
		panic(pathEnd{"unwind", "call depth bound in " + fn.String()})
	}
	e.sh.markFunc(fn)
	g.stack = append(g.stack, fn)
	e.probe(fn, true, args)
	fi := e.info(fn)
	fr := &frame{fn: fn, fi: fi, env: make([]Value, fi.n)}
	copy(fr.env, args)
	copy(fr.env[len(fn.Params):], free)
	res := e.runFrame(fr)
	// the stack may have been cut by a path end; only pop our own entry
	g.stack = g.stack[:len(g.stack)-1]
	e.probe(fn, false, []Value{res})
	return res
}

func (e *Exec) runFrame(fr *frame) Value {
	fn := fr.fn
	b := fn.Blocks[0]
	for {
		var next *ssa.BasicBlock
		for _, in := range b.Instrs {
			e.steps++
			if e.steps > e.cfg.StepBound {
				panic(pathEnd{"unwind", "step bound"})
			}
			switch x := in.(type) {
			case *ssa.Phi:
				for i, p := range b.Preds {
					if p == fr.prev {
						fr.env[fr.fi.idx[x]] = e.get(fr, x.Edges[i])
						break
					}
				}
			case *ssa.Jump:
				next = b.Succs[0]
			case *ssa.If:
				if e.decide(e.get(fr, x.Cond).(*Term)) {
					next = b.Succs[0]
				} else {
					next = b.Succs[1]
				}
			case *ssa.Return:
				var res Value
				switch len(x.Results) {
				case 0:
				case 1:
					res = e.get(fr, x.Results[0])
				default:
					tu := make(Tuple, len(x.Results))
					for i, r := range x.Results {
						tu[i] = e.get(fr, r)
					}
					res = tu
				}
				return res
			case *ssa.RunDefers:
				for len(fr.defers) > 0 {
					d := fr.defers[len(fr.defers)-1]
					fr.defers = fr.defers[:len(fr.defers)-1]
					d()
				}
			case *ssa.Defer:
				if bi, ok := x.Call.Value.(*ssa.Builtin); ok {
					bargs := make([]Value, len(x.Call.Args))
					for i, a := range x.Call.Args {
						bargs[i] = e.get(fr, a)
					}
					fr.defers = append(fr.defers, func() { e.builtin(fr, bi, bargs, nil) })
					continue
				}
				f, args, free := e.prepareCall(fr, &x.Call)
				fr.defers = append(fr.defers, func() { e.call(f, args, free) })
			case *ssa.Go:
				f, args, free := e.prepareCall(fr, &x.Call)
				e.spawn(f, args, free)
			case *ssa.Send:
				c, _ := e.get(fr, x.Chan).(*Chan)
				e.chanSend(c, e.get(fr, x.X))
			case *ssa.Panic:
				v := e.get(fr, x.X)
				e.goPanic("panic: " + e.panicText(v))
			case *ssa.Store:
				p, _ := e.get(fr, x.Addr).(*Cell)
				if p == nil {
					e.goPanic("nil pointer dereference (store)")
				}
				e.store(p, e.get(fr, x.Val))
			case *ssa.MapUpdate:
				m, _ := e.get(fr, x.Map).(*Map)
				e.mapUpdate(m, e.get(fr, x.Key), e.get(fr, x.Value))
			case *ssa.DebugRef:
			case ssa.Value:
				fr.env[fr.fi.idx[x]] = e.eval(fr, x)
			default:
				panic(unsupported(fmt.Sprintf("instruction %T", in)))
			}
		}
		fr.prev = b
		b = next
	}
}

func (e *Exec) panicText(v Value) string {
	if i, ok := v.(Iface); ok {
		if s, ok := i.v.(Str); ok && s.isConc() {
			return s.conc
		}
		if oe, ok := i.v.(*opaqueErr); ok {
			return oe.name
		}
		if i.t != nil {
			return "value of type " + i.t.String()
		}
	}
	return fmt.Sprint(e.showVal(v))
}

// goPanic: an un-recovered Go panic on a feasible path (the repo has no recover()).
func (e *Exec) goPanic(msg string) {
	e.obligation(tTrue, "panic", msg)
	panic(pathEnd{"violation", msg}) // not reached
}

func (e *Exec) prepareCall(fr *frame, cc *ssa.CallCommon) (*ssa.Function, []Value, []Value) {
	if cc.IsInvoke() {
		recv, _ := e.get(fr, cc.Value).(Iface)
		if recv.t == nil {
			e.goPanic("nil pointer dereference (method " + cc.Method.Name() + " on nil interface)")
		}
		args := make([]Value, 0, len(cc.Args)+1)
		args = append(args, recv.v)
		for _, a := range cc.Args {
			args = append(args, e.get(fr, a))
		}
		if recv.t == opaqueErrType {
			return e.opaqueMethod(cc.Method.Name()), args, nil
		}
		if recv.t == reflectTypeType {
			return e.opaqueMethod("reflect.Type." + cc.Method.Name()), args, nil
		}
		fn := e.prog.LookupMethod(recv.t, cc.Method.Pkg(), cc.Method.Name())
		if fn == nil {
			panic(unsupported(fmt.Sprintf("no method %s on %s", cc.Method.Name(), recv.t)))
		}
		return fn, args, nil
	}
	args := make([]Value, len(cc.Args))
	for i, a := range cc.Args {
		args[i] = e.get(fr, a)
	}
	switch f := e.get(fr, cc.Value).(type) {
	case *Closure:
		if f == nil {
			e.goPanic("nil pointer dereference (call of nil func)")
		}
		return f.fn, args, f.free
	}
	panic(unsupported(fmt.Sprintf("call of %T", e.get(fr, cc.Value))))
}

func (e *Exec) load(p *Cell) Value {
	e.onAccess(p, false)
	switch p.v.(type) {
	case *StructObj, *Array:
		return copyVal(p.v)
	}
	return p.v
}

func (e *Exec) store(c *Cell, v Value) {
	switch x := v.(type) {
	case *StructObj:
		if dst, ok := c.v.(*StructObj); ok && len(dst.fields) == len(x.fields) {
			for i := range x.fields {
				e.store(dst.fields[i], x.fields[i].v)
			}
			return
		}
		e.onAccess(c, true)
		c.v = copyVal(v)
	case *Array:
		if dst, ok := c.v.(*Array); ok && len(dst.elems) == len(x.elems) {
			for i := range x.elems {
				e.store(dst.elems[i], x.elems[i].v)
			}
			return
		}
		e.onAccess(c, true)
		c.v = copyVal(v)
	default:
		e.onAccess(c, true)
		c.v = v
	}
}

// index resolves a possibly symbolic index into [0,n): out-of-range is an obligation.
func (e *Exec) index(t *Term, n int, what string) int {
	if v, ok := t.ConstInt64(); ok {
		if v < 0 || v >= int64(n) {
			e.goPanic(fmt.Sprintf("index out of range [%d] with length %d (%s)", v, n, what))
		}
		return int(v)
	}
	e.obligation(Or(Lt(t, K(0)), Le(K(int64(n)), t)), "panic", fmt.Sprintf("index out of range with length %d (%s)", n, what))
	return int(e.concretize(t, 0, int64(n-1), "index"))
}

func (e *Exec) eval(fr *frame, v ssa.Value) Value {
	switch x := v.(type) {
	case *ssa.Alloc:
		return &Cell{v: e.zero(x.Type().(*types.Pointer).Elem())}
	case *ssa.FieldAddr:
		p, _ := e.get(fr, x.X).(*Cell)
		if p == nil {
			e.goPanic("nil pointer dereference (field " + fieldName(x.X.Type(), x.Field) + ")")
		}
		so, ok := p.v.(*StructObj)
		if !ok {
			panic(pathEnd{"internal", fmt.Sprintf("FieldAddr on %T in %s", p.v, fr.fn)})
		}
		return so.fields[x.Field]
	case *ssa.Field:
		return e.get(fr, x.X).(*StructObj).fields[x.Field].v
	case *ssa.IndexAddr:
		switch b := e.get(fr, x.X).(type) {
		case Slice:
			idx := e.index(e.get(fr, x.Index).(*Term), b.len, "slice")
			return b.arr.elems[b.off+idx]
		case *Cell:
			if b == nil {
				e.goPanic("nil pointer dereference (array)")
			}
			arr := b.v.(*Array)
			idx := e.index(e.get(fr, x.Index).(*Term), len(arr.elems), "array")
			return arr.elems[idx]
		}
		panic(unsupported("IndexAddr base"))
	case *ssa.Index:
		switch b := e.get(fr, x.X).(type) {
		case *Array:
			idx := e.index(e.get(fr, x.Index).(*Term), len(b.elems), "array")
			return b.elems[idx].v
		case Str:
			return e.strIndex(b, e.get(fr, x.Index).(*Term))
		}
		panic(unsupported("Index base"))
	case *ssa.UnOp:
		a := e.get(fr, x.X)
		switch x.Op {
		case token.MUL:
			p, _ := a.(*Cell)
			if p == nil {
				e.goPanic("nil pointer dereference (load)")
			}
			return e.load(p)
		case token.ARROW:
			c, _ := a.(*Chan)
			v, ok := e.chanRecv(c, x.X.Type().Underlying().(*types.Chan).Elem())
			if x.CommaOk {
				return Tuple{v, B(ok)}
			}
			return v
		case token.NOT:
			return Not(a.(*Term))
		case token.SUB:
			t := a.(*Term)
			if t.Sort != SInt {
				return FNeg(t)
			}
			w, sg, _ := intType(x.Type())
			return e.wrapT(RawSub(K(0), t), w, sg, true)
		case token.XOR:
			t := a.(*Term)
			w, sg, _ := intType(x.Type())
			// ^x == -x-1 (signed); for unsigned 2^w-1-x
			if sg {
				return Wrap1(RawSub(RawSub(K(0), t), K(1)), w, sg)
			}
			return RawSub(KBig(new(big.Int).Sub(pow2[w], big.NewInt(1))), t)
		}
		panic(unsupported("unop " + x.Op.String()))
	case *ssa.BinOp:
		return e.binop(x.Op, e.get(fr, x.X), e.get(fr, x.Y), x.X.Type(), x.Y.Type())
	case *ssa.Call:
		if b, ok := x.Call.Value.(*ssa.Builtin); ok {
			args := make([]Value, len(x.Call.Args))
			for i, a := range x.Call.Args {
				args[i] = e.get(fr, a)
			}
			return e.builtin(fr, b, args, x)
		}
		f, args, free := e.prepareCall(fr, &x.Call)
		e.callSite = x
		return e.call(f, args, free)
	case *ssa.MakeInterface:
		return Iface{t: x.X.Type(), v: e.get(fr, x.X)}
	case *ssa.ChangeInterface:
		return e.get(fr, x.X)
	case *ssa.ChangeType:
		return e.get(fr, x.X)
	case *ssa.Convert:
		return e.convert(e.get(fr, x.X), x.X.Type(), x.Type())
	case *ssa.MultiConvert:
		return e.convert(e.get(fr, x.X), x.X.Type(), x.Type())
	case *ssa.SliceToArrayPointer:
		s := e.get(fr, x.X).(Slice)
		n := int(x.Type().(*types.Pointer).Elem().Underlying().(*types.Array).Len())
		if s.len < n {
			e.goPanic("slice to array pointer: length too short")
		}
		if s.arr == nil {
			return (*Cell)(nil)
		}
		return &Cell{v: &Array{elems: s.arr.elems[s.off : s.off+n]}}
	case *ssa.TypeAssert:
		return e.typeAssert(fr, x)
	case *ssa.Extract:
		return e.get(fr, x.Tuple).(Tuple)[x.Index]
	case *ssa.MakeMap:
		return &Map{}
	case *ssa.MakeChan:
		return e.newChan(int(e.concretize(e.get(fr, x.Size).(*Term), 0, 64, "chan size")))
	case *ssa.Select:
		return e.doSelect(fr, x)
	case *ssa.MakeSlice:
		n := int(e.makeLen(e.get(fr, x.Len).(*Term)))
		c := int(e.makeLen(e.get(fr, x.Cap).(*Term)))
		if c < n {
			e.goPanic("makeslice: cap out of range")
		}
		return e.newSlice(x.Type().Underlying().(*types.Slice).Elem(), n, c)
	case *ssa.MakeClosure:
		free := make([]Value, len(x.Bindings))
		for i, b := range x.Bindings {
			free[i] = e.get(fr, b)
		}
		return &Closure{fn: x.Fn.(*ssa.Function), free: free}
	case *ssa.Lookup:
		m := e.get(fr, x.X)
		if s, ok := m.(Str); ok {
			return e.strIndex(s, e.get(fr, x.Index).(*Term))
		}
		mp, _ := m.(*Map)
		val, ok := e.mapLookup(mp, e.get(fr, x.Index))
		if !ok {
			val = e.zero(x.X.Type().Underlying().(*types.Map).Elem())
		}
		if x.CommaOk {
			return Tuple{val, B(ok)}
		}
		return val
	case *ssa.Slice:
		return e.slice(fr, x)
	case *ssa.Range:
		return e.rangeIter(e.get(fr, x.X))
	case *ssa.Next:
		return e.next(fr, x)
	}
	panic(unsupported(fmt.Sprintf("eval %T in %s", v, fr.fn)))
}

func fieldName(t types.Type, i int) string {
	if p, ok := t.Underlying().(*types.Pointer); ok {
		if s, ok := p.Elem().Underlying().(*types.Struct); ok && i < s.NumFields() {
			return s.Field(i).Name()
		}
	}
	return fmt.Sprint(i)
}

func (e *Exec) makeLen(t *Term) int64 {
	if v, ok := t.ConstInt64(); ok {
		if v < 0 {
			e.goPanic("makeslice: len out of range")
		}
		return v
	}
	e.obligation(Lt(t, K(0)), "panic", "makeslice: len out of range")
	return e.concretize(t, 0, 16, "make length")
}

func (e *Exec) newSlice(el types.Type, n, c int) Slice {
	arr := &Array{elems: make([]*Cell, c)}
	for i := range arr.elems {
		arr.elems[i] = &Cell{v: e.zero(el)}
	}
	return Slice{arr: arr, len: n, cap: c}
}

func (e *Exec) typeAssert(fr *frame, x *ssa.TypeAssert) Value {
	i, _ := e.get(fr, x.X).(Iface)
	ok := false
	_, toIface := x.AssertedType.Underlying().(*types.Interface)
	if i.t != nil {
		if toIface {
			if i.t == opaqueErrType {
				ok = e.opaqueImplements(x.AssertedType)
			} else {
				ok = types.Implements(i.t, x.AssertedType.Underlying().(*types.Interface))
			}
		} else {
			ok = types.Identical(i.t, x.AssertedType)
		}
	}
	var res Value
	if ok {
		if toIface {
			res = i
		} else {
			res = i.v
		}
	} else {
		res = e.zero(x.AssertedType)
	}
	if x.CommaOk {
		return Tuple{res, B(ok)}
	}
	if !ok {
		have := "nil"
		if i.t != nil {
			have = i.t.String()
		}
		e.goPanic(fmt.Sprintf("interface conversion: interface is %s, not %s", shortFn(have), shortFn(x.AssertedType.String())))
	}
	return res
}

func (e *Exec) opaqueImplements(t types.Type) bool {
	it := t.Underlying().(*types.Interface)
	// opaque errors implement exactly `error` (and the empty interface)
	if it.NumMethods() == 0 {
		return true
	}
	return it.NumMethods() == 1 && it.Method(0).Name() == "Error"
}

func (e *Exec) slice(fr *frame, x *ssa.Slice) Value {
	var s Slice
	switch b := e.get(fr, x.X).(type) {
	case Slice:
		s = b
	case *Cell: // pointer to array
		if b == nil {
			e.goPanic("nil pointer dereference (slice of nil array pointer)")
		}
		arr := b.v.(*Array)
		s = Slice{arr: arr, len: len(arr.elems), cap: len(arr.elems)}
	case Str:
		return e.strSlice(fr, x, b)
	default:
		panic(unsupported(fmt.Sprintf("slice of %T", b)))
	}
	lo, hi, max := 0, s.len, s.cap
	if x.Low != nil {
		lo = int(e.concretize(e.get(fr, x.Low).(*Term), -1, int64(s.cap)+1, "slice bound"))
	}
	if x.High != nil {
		hi = int(e.concretize(e.get(fr, x.High).(*Term), -1, int64(s.cap)+1, "slice bound"))
	}
	if x.Max != nil {
		max = int(e.concretize(e.get(fr, x.Max).(*Term), -1, int64(s.cap)+1, "slice bound"))
	}
	if lo < 0 || hi < lo || max < hi || max > s.cap {
		e.goPanic(fmt.Sprintf("slice bounds out of range [%d:%d:%d] with capacity %d", lo, hi, max, s.cap))
	}
	if s.arr == nil {
		return Slice{}
	}
	return Slice{arr: s.arr, off: s.off + lo, len: hi - lo, cap: max - lo}
}

func (e *Exec) strSlice(fr *frame, x *ssa.Slice, s Str) Value {
	if s.atom != nil {
		panic(unsupported("slicing an atom string"))
	}
	n := len(s.conc)
	if s.isB {
		n = len(s.bytes)
	}
	lo, hi := 0, n
	if x.Low != nil {
		lo = int(e.concretize(e.get(fr, x.Low).(*Term), -1, int64(n)+1, "string slice bound"))
	}
	if x.High != nil {
		hi = int(e.concretize(e.get(fr, x.High).(*Term), -1, int64(n)+1, "string slice bound"))
	}
	if lo < 0 || hi < lo || hi > n {
		e.goPanic(fmt.Sprintf("slice bounds out of range [%d:%d] with length %d", lo, hi, n))
	}
	if s.isB {
		return strFromBytes(s.bytes[lo:hi])
	}
	return Str{conc: s.conc[lo:hi]}
}

func (e *Exec) strIndex(s Str, it *Term) Value {
	if s.atom != nil {
		panic(unsupported("indexing an atom string"))
	}
	if s.isB {
		i := e.index(it, len(s.bytes), "string")
		return s.bytes[i]
	}
	i := e.index(it, len(s.conc), "string")
	return K(int64(s.conc[i]))
}

func (e *Exec) rangeIter(v Value) Value {
	switch m := v.(type) {
	case Str:
		if m.atom != nil {
			panic(unsupported("range over atom string"))
		}
		return &strIter{s: m}
	case *Map:
		it := &mapIter{}
		n := 0
		if m != nil {
			e.onAccess(&m.cell, false)
			n = len(m.ents)
		}
		perm := make([]int, n)
		for i := range perm {
			perm[i] = i
		}
		if e.cfg.AllMapOrders && n > 1 {
			if n > 5 {
				panic(pathEnd{"unwind", "map with more than 5 entries under all-orders iteration"})
			}
			perms := permutations(n)
			k := e.chooseN(len(perms), nil)
			perm = perms[k]
		}
		for _, i := range perm {
			it.snap = append(it.snap, m.ents[i])
		}
		return it
	}
	panic(unsupported(fmt.Sprintf("range over %T", v)))
}

func (e *Exec) next(fr *frame, x *ssa.Next) Value {
	switch it := e.get(fr, x.Iter).(type) {
	case *mapIter:
		for it.pos < len(it.snap) && it.snap[it.pos].deleted {
			it.pos++
		}
		if it.pos >= len(it.snap) {
			tt := x.Type().(*types.Tuple)
			return Tuple{tFalse, e.zeroOrNil(tt.At(1).Type()), e.zeroOrNil(tt.At(2).Type())}
		}
		en := it.snap[it.pos]
		it.pos++
		return Tuple{tTrue, en.k, en.v}
	case *strIter:
		bs := e.toBytes(it.s)
		if it.pos >= len(bs) {
			return Tuple{tFalse, K(0), K(0)}
		}
		i := it.pos
		b := bs[i]
		if b.IsConst() && b.K >= 0x80 {
			// concrete multi-byte rune
			var raw []byte
			for k := i; k < len(bs) && k < i+4 && bs[k].IsConst(); k++ {
				raw = append(raw, byte(bs[k].K))
			}
			r, size := decodeRuneConc(string(raw))
			it.pos += size
			return Tuple{tTrue, K(int64(i)), K(int64(r))}
		}
		// symbolic bytes are restricted to ASCII (stated bound)
		it.pos++
		return Tuple{tTrue, K(int64(i)), b}
	}
	panic(unsupported("next"))
}

func (e *Exec) zeroOrNil(t types.Type) Value {
	if b, ok := t.(*types.Basic); ok && b.Kind() == types.Invalid {
		return nil
	}
	return e.zero(t)
}

func decodeRuneConc(s string) (rune, int) {
	for i, r := range s {
		_ = i
		n := len(string(r))
		if r == 0xFFFD {
			n = 1
		}
		return r, n
	}
	return 0, 0
}

func permutations(n int) [][]int {
	if n == 0 {
		return [][]int{{}}
	}
	var res [][]int
	for _, p := range permutations(n - 1) {
		for i := 0; i <= len(p); i++ {
			q := append(append(append([]int{}, p[:i]...), n-1), p[i:]...)
			res = append(res, q)
		}
	}
	return res
}

// ---- arithmetic ----

func (e *Exec) binop(op token.Token, a, b Value, ta, tb types.Type) Value {
	switch op {
	case token.EQL:
		return e.eqVal(a, b)
	case token.NEQ:
		return Not(e.eqVal(a, b))
	}
	if sa, ok := a.(Str); ok {
		sb := b.(Str)
		switch op {
		case token.LSS:
			return e.strLt(sa, sb)
		case token.GTR:
			return e.strLt(sb, sa)
		case token.LEQ:
			return Not(e.strLt(sb, sa))
		case token.GEQ:
			return Not(e.strLt(sa, sb))
		case token.ADD:
			if sa.isConc() && sb.isConc() {
				return Str{conc: sa.conc + sb.conc}
			}
			if sa.atom == nil && sb.atom == nil {
				return strFromBytes(append(append([]*Term{}, e.toBytes(sa)...), e.toBytes(sb)...))
			}
			if sa.isConc() && sa.conc == "" {
				return sb
			}
			if sb.isConc() && sb.conc == "" {
				return sa
			}
			// concatenation with an arbitrary string: opaque as long as it is only text; comparing
			// it needs the content (see builtCheck)
			r := opaqueStr(e, "concat")
			r.built = true
			return r
		}
		panic(unsupported("string operation " + op.String() + " on atom"))
	}
	x, y := a.(*Term), b.(*Term)
	if x.Sort == SF32 || x.Sort == SF64 {
		switch op {
		case token.ADD:
			return FBin(OFAdd, x, y)
		case token.SUB:
			return FBin(OFSub, x, y)
		case token.MUL:
			if p := e.unitMul(x, y); p != nil {
				return p
			}
			return FBin(OFMul, x, y)
		case token.QUO:
			return FBin(OFDiv, x, y)
		case token.LSS:
			return FCmp(OFLt, x, y)
		case token.LEQ:
			return FCmp(OFLe, x, y)
		case token.GTR:
			return FCmp(OFLt, y, x)
		case token.GEQ:
			return FCmp(OFLe, y, x)
		}
		panic(unsupported("float op " + op.String()))
	}
	if x.Sort == SBool {
		switch op {
		case token.LAND, token.AND:
			return And(x, y)
		case token.LOR, token.OR:
			return Or(x, y)
		}
		panic(unsupported("bool op " + op.String()))
	}
	w, sg, _ := intType(ta)
	switch op {
	case token.ADD:
		return e.wrapT(RawAdd(x, y), w, sg, true)
	case token.SUB:
		return e.wrapT(RawSub(x, y), w, sg, true)
	case token.LSS:
		return Lt(x, y)
	case token.LEQ:
		return Le(x, y)
	case token.GTR:
		return Lt(y, x)
	case token.GEQ:
		return Le(y, x)
	case token.MUL:
		if !x.IsConst() && !y.IsConst() {
			panic(unsupported("symbolic*symbolic multiplication"))
		}
		return e.wrapT(RawMul(x, y), w, sg, false)
	case token.QUO, token.REM:
		if !y.IsConst() {
			e.obligation(Eq(y, K(0)), "panic", "integer divide by zero")
			if !x.IsConst() || true {
				// symbolic divisor: non-linear; supported only through the solver's NIA (may be unknown)
			}
		} else if y.BigVal().Sign() == 0 {
			e.goPanic("integer divide by zero")
		}
		if op == token.QUO {
			// MinInt / -1 wraps
			return e.wrapT(RawQuo(x, y), w, sg, false)
		}
		return RawRem(x, y)
	case token.SHL:
		if s, ok := y.ConstInt64(); ok && s >= 0 && s < 128 {
			return Wrap(RawMul(x, KBig(pow2[s])), w, sg)
		}
		panic(unsupported("symbolic shift"))
	case token.SHR:
		if s, ok := y.ConstInt64(); ok && s >= 0 && s < 128 {
			if x.IsConst() {
				return KBig(new(big.Int).Rsh(x.BigVal(), uint(s)))
			}
			// floor division by 2^s (arithmetic shift for signed)
			return floorDiv(x, KBig(pow2[s]))
		}
		panic(unsupported("symbolic shift"))
	case token.AND, token.OR, token.XOR, token.AND_NOT:
		if x.IsConst() && y.IsConst() {
			ux, uy := wrapBig(x.BigVal(), w, false), wrapBig(y.BigVal(), w, false)
			r := new(big.Int)
			switch op {
			case token.AND:
				r.And(ux, uy)
			case token.OR:
				r.Or(ux, uy)
			case token.XOR:
				r.Xor(ux, uy)
			case token.AND_NOT:
				r.AndNot(ux, uy)
			}
			return KBig(wrapBig(r, w, sg))
		}
		if op == token.AND && y.IsConst() {
			// x & (2^k-1) == x mod 2^k
			m := new(big.Int).Add(y.BigVal(), big.NewInt(1))
			for k := 1; k <= 64; k++ {
				if m.Cmp(pow2[k]) == 0 {
					return Wrap(x, k, false)
				}
			}
		}
		panic(unsupported("bitwise operator on symbolic operand"))
	}
	panic(unsupported("binop " + op.String()))
}

func floorDiv(x, d *Term) *Term {
	// floor(x/d) for d>0: (x - mod(x,d))/d ; expressed with truncated ops:
	q := RawQuo(x, d)
	r := RawRem(x, d)
	return Ite(Lt(r, K(0)), RawSub(q, K(1)), q)
}

func (e *Exec) convert(v Value, from, to types.Type) Value {
	fu, tu := from.Underlying(), to.Underlying()
	if tp, ok := fu.(*types.TypeParam); ok {
		_ = tp
		panic(unsupported("convert from type parameter"))
	}
	switch t := tu.(type) {
	case *types.Basic:
		switch {
		case t.Info()&types.IsInteger != 0:
			x, isT := v.(*Term)
			if !isT {
				panic(unsupported("convert to integer from " + from.String()))
			}
			w, sg, _ := intType(to)
			if x.Sort == SF32 || x.Sort == SF64 {
				return F2I(x, w, sg)
			}
			fw, fsg, _ := intType(from)
			if fw <= w && (fsg == sg || (!fsg && fw < w)) {
				return x // value-preserving widening
			}
			return e.wrapT(x, w, sg, false)
		case t.Info()&types.IsFloat != 0:
			x := v.(*Term)
			s := sortOf(to)
			if x.Sort == SInt {
				_, fsg, _ := intType(from)
				return I2F(x, s, !fsg)
			}
			return F2F(x, s)
		case t.Info()&types.IsString != 0:
			switch x := v.(type) {
			case Str:
				return x
			case Slice: // []byte or []rune -> string
				bs := make([]*Term, x.len)
				for i := 0; i < x.len; i++ {
					bs[i] = x.arr.elems[x.off+i].v.(*Term)
				}
				if el, ok := fu.(*types.Slice); ok {
					if w, _, _ := intType(el.Elem()); w == 32 {
						// []rune
						// concrete runes are UTF-8 encoded; symbolic runes are restricted to ASCII (one byte)
						var out []*Term
						for _, b := range bs {
							if !b.IsConst() {
								out = append(out, b)
								continue
							}
							for _, c := range []byte(string(rune(b.K))) {
								out = append(out, K(int64(c)))
							}
						}
						if len(out) == 0 {
							return Str{}
						}
						return strFromBytes(out)
					}
				}
				return strFromBytes(bs)
			case *Term: // string(rune)
				if x.IsConst() {
					return Str{conc: string(rune(x.K))}
				}
				return Str{bytes: []*Term{x}, isB: true}
			}
		case t.Kind() == types.UnsafePointer:
			return v
		}
	case *types.Slice:
		if s, ok := v.(Str); ok { // string -> []byte / []rune
			w, _, _ := intType(t.Elem())
			if w == 32 && s.isConc() {
				rs := []rune(s.conc)
				sl := e.newSlice(t.Elem(), len(rs), len(rs))
				for i, r := range rs {
					sl.arr.elems[i].v = K(int64(r))
				}
				return sl
			}
			if s.atom != nil {
				// bytes of an arbitrary (formatted) string: opaque, one symbolic byte
				e.sh.addNote("abstraction: []byte of an opaque formatted string is one opaque byte")
				sl := e.newSlice(t.Elem(), 1, 1)
				b := e.freshVar("opqbyte", SInt)
				e.assertPC(Le(K(0), b))
				e.assertPC(Lt(b, K(256)))
				sl.arr.elems[0].v = b
				return sl
			}
			bs := e.toBytes(s)
			sl := e.newSlice(t.Elem(), len(bs), len(bs))
			for i, b := range bs {
				sl.arr.elems[i].v = b
			}
			return sl
		}
		return v
	case *types.Pointer:
		return v
	}
	panic(unsupported(fmt.Sprintf("convert %s -> %s", from, to)))
}

// ---- maps ----

func (e *Exec) mapLookup(m *Map, k Value) (Value, bool) {
	if m == nil {
		return nil, false
	}
	e.onAccess(&m.cell, false)
	for _, en := range m.ents {
		if e.decide(e.eqVal(en.k, k)) {
			return en.v, true
		}
	}
	return nil, false
}

func (e *Exec) mapUpdate(m *Map, k, v Value) {
	if m == nil {
		e.goPanic("assignment to entry in nil map")
	}
	e.onAccess(&m.cell, true)
	for _, en := range m.ents {
		if e.decide(e.eqVal(en.k, k)) {
			en.v = v
			return
		}
	}
	m.ents = append(m.ents, &entry{k: k, v: v})
}

func (e *Exec) mapDelete(m *Map, k Value) {
	if m == nil {
		return
	}
	e.onAccess(&m.cell, true)
	for i, en := range m.ents {
		if e.decide(e.eqVal(en.k, k)) {
			en.deleted = true
			m.ents = append(append([]*entry{}, m.ents[:i]...), m.ents[i+1:]...)
			return
		}
	}
}

// ---- builtins ----

func (e *Exec) builtin(fr *frame, b *ssa.Builtin, args []Value, call *ssa.Call) Value {
	switch b.Name() {
	case "len":
		switch x := args[0].(type) {
		case Slice:
			return K(int64(x.len))
		case *Map:
			if x == nil {
				return K(0)
			}
			e.onAccess(&x.cell, false)
			return K(int64(len(x.ents)))
		case Str:
			switch {
			case x.atom != nil:
				panic(unsupported("len of atom string"))
			case x.isB:
				return K(int64(len(x.bytes)))
			}
			return K(int64(len(x.conc)))
		case *Chan:
			if x == nil {
				return K(0)
			}
			return K(int64(len(x.buf)))
		case *Array:
			return K(int64(len(x.elems)))
		case *Cell:
			return K(int64(len(x.v.(*Array).elems)))
		}
	case "cap":
		switch x := args[0].(type) {
		case Slice:
			return K(int64(x.cap))
		case *Chan:
			if x == nil {
				return K(0)
			}
			return K(int64(x.cap))
		}
	case "append":
		s := args[0].(Slice)
		var t Slice
		switch y := args[1].(type) {
		case Slice:
			t = y
		case Str: // append([]byte, string...)
			bs := e.toBytes(y)
			t = e.newSlice(types.Typ[types.Uint8], len(bs), len(bs))
			for i, b := range bs {
				t.arr.elems[i].v = b
			}
		}
		if t.len == 0 {
			return s
		}
		n := s.len + t.len
		if n <= s.cap {
			for i := 0; i < t.len; i++ {
				e.store(s.arr.elems[s.off+s.len+i], e.load(t.arr.elems[t.off+i]))
			}
			return Slice{arr: s.arr, off: s.off, len: n, cap: s.cap}
		}
		el := call.Type().Underlying().(*types.Slice).Elem()
		nc := growCap(s.cap, n, e.sizeof(el))
		ns := e.newSlice(el, n, nc)
		for i := 0; i < s.len; i++ {
			ns.arr.elems[i].v = e.load(s.arr.elems[s.off+i])
		}
		for i := 0; i < t.len; i++ {
			ns.arr.elems[s.len+i].v = e.load(t.arr.elems[t.off+i])
		}
		return ns
	case "copy":
		d := args[0].(Slice)
		var s Slice
		switch y := args[1].(type) {
		case Slice:
			s = y
		case Str:
			bs := e.toBytes(y)
			s = e.newSlice(types.Typ[types.Uint8], len(bs), len(bs))
			for i, b := range bs {
				s.arr.elems[i].v = b
			}
		}
		n := d.len
		if s.len < n {
			n = s.len
		}
		vals := make([]Value, n)
		for i := 0; i < n; i++ {
			vals[i] = e.load(s.arr.elems[s.off+i])
		}
		for i := 0; i < n; i++ {
			e.store(d.arr.elems[d.off+i], vals[i])
		}
		return K(int64(n))
	case "ssa:wrapnilchk":
		if isNilValue(args[0]) {
			e.goPanic("nil pointer dereference (method value on nil receiver)")
		}
		return args[0]
	case "close":
		c, _ := args[0].(*Chan)
		e.chanClose(c)
		return nil
	case "delete":
		m, _ := args[0].(*Map)
		e.mapDelete(m, args[1])
		return nil
	case "panic":
		e.goPanic("panic: " + e.panicText(args[0]))
	case "recover":
		return Iface{}
	case "min", "max":
		r := args[0].(*Term)
		for _, a := range args[1:] {
			y := a.(*Term)
			if r.Sort != SInt {
				panic(unsupported("min/max on floats"))
			}
			if b.Name() == "min" {
				r = Ite(Lt(y, r), y, r)
			} else {
				r = Ite(Lt(r, y), y, r)
			}
		}
		return r
	case "print", "println":
		return nil
	case "clear":
		switch x := args[0].(type) {
		case *Map:
			if x != nil {
				e.onAccess(&x.cell, true)
				for _, en := range x.ents {
					en.deleted = true
				}
				x.ents = nil
			}
			return nil
		case Slice:
			if st, ok := call.Call.Args[0].Type().Underlying().(*types.Slice); ok {
				for i := 0; i < x.len; i++ {
					c := x.arr.elems[x.off+i]
					e.onAccess(c, true)
					c.v = e.zero(st.Elem())
				}
				return nil
			}
		}
	}
	panic(unsupported("builtin " + b.Name()))
}

// sizeof approximates unsafe.Sizeof for the growslice size-class rule.
func (e *Exec) sizeof(t types.Type) int {
	sz := types.SizesFor("gc", "amd64").Sizeof(t)
	return int(sz)
}

// Go's malloc size classes (runtime/sizeclasses.go) up to 32 KiB.
var sizeClasses = []int{0, 8, 16, 24, 32, 48, 64, 80, 96, 112, 128, 144, 160, 176, 192, 208, 224, 240, 256, 288, 320, 352, 384, 416, 448, 480, 512, 576, 640, 704, 768, 896, 1024, 1152, 1280, 1408, 1536, 1792, 2048, 2304, 2688, 3072, 3200, 3456, 4096, 4864, 5376, 6144, 6528, 6784, 6912, 8192, 9472, 9728, 10240, 10880, 12288, 13568, 14336, 16384, 18432, 19072, 20480, 21760, 24576, 27264, 28672, 32768}

func roundupsize(n int) int {
	for _, c := range sizeClasses {
		if c >= n {
			return c
		}
	}
	return (n + 8191) &^ 8191
}

// growCap mirrors runtime.growslice (go1.20+): so that spare capacity after
// append is what the real binary has.
func growCap(oldCap, newLen, elemSize int) int {
	newcap := oldCap
	doublecap := newcap + newcap
	if newLen > doublecap {
		newcap = newLen
	} else {
		const threshold = 256
		if oldCap < threshold {
			newcap = doublecap
		} else {
			for newcap < newLen {
				newcap += (newcap + 3*threshold) >> 2
			}
		}
	}
	if elemSize == 0 {
		return newcap
	}
	mem := roundupsize(newcap * elemSize)
	return mem / elemSize
}
