package main

// Interval pre-pass (DESIGN §3.3): drops the exact wrap term where it provably
// cannot fire, using variable bounds learnt from the path condition.

import "math/big"

type ival struct{ lo, hi *big.Int } // nil = unbounded on that side

func (a ival) bounded() bool { return a.lo != nil && a.hi != nil }

func ivConst(b *big.Int) ival { return ival{b, b} }

func bmin(a, b *big.Int) *big.Int {
	if a == nil || b == nil {
		return nil
	}
	if a.Cmp(b) < 0 {
		return a
	}
	return b
}

func bmax(a, b *big.Int) *big.Int {
	if a == nil || b == nil {
		return nil
	}
	if a.Cmp(b) > 0 {
		return a
	}
	return b
}

func badd(a, b *big.Int) *big.Int {
	if a == nil || b == nil {
		return nil
	}
	return new(big.Int).Add(a, b)
}

func bsub(a, b *big.Int) *big.Int {
	if a == nil || b == nil {
		return nil
	}
	return new(big.Int).Sub(a, b)
}

func typeRange(w int, signed bool) ival {
	if signed {
		return ival{new(big.Int).Neg(pow2[w-1]), new(big.Int).Sub(pow2[w-1], big.NewInt(1))}
	}
	return ival{big.NewInt(0), new(big.Int).Sub(pow2[w], big.NewInt(1))}
}

func (a ival) within(b ival) bool {
	return a.bounded() && a.lo.Cmp(b.lo) >= 0 && a.hi.Cmp(b.hi) <= 0
}

func (e *Exec) interval(t *Term, depth int) ival {
	if depth > 40 {
		return ival{}
	}
	switch t.Op {
	case OConst:
		if t.Sort != SInt {
			return ival{}
		}
		return ivConst(t.BigVal())
	case OVar:
		if b, ok := e.vbounds[t]; ok {
			return b
		}
		return ival{}
	case OAdd:
		a, b := e.interval(t.Args[0], depth+1), e.interval(t.Args[1], depth+1)
		return ival{badd(a.lo, b.lo), badd(a.hi, b.hi)}
	case OSub:
		a, b := e.interval(t.Args[0], depth+1), e.interval(t.Args[1], depth+1)
		return ival{bsub(a.lo, b.hi), bsub(a.hi, b.lo)}
	case OMul:
		var c *big.Int
		var x *Term
		if t.Args[0].IsConst() {
			c, x = t.Args[0].BigVal(), t.Args[1]
		} else if t.Args[1].IsConst() {
			c, x = t.Args[1].BigVal(), t.Args[0]
		} else {
			return ival{}
		}
		a := e.interval(x, depth+1)
		if !a.bounded() {
			return ival{}
		}
		p, q := new(big.Int).Mul(a.lo, c), new(big.Int).Mul(a.hi, c)
		return ival{bmin(p, q), bmax(p, q)}
	case ODiv:
		if !t.Args[1].IsConst() || t.Args[1].BigVal().Sign() <= 0 {
			return ival{}
		}
		a := e.interval(t.Args[0], depth+1)
		if !a.bounded() {
			return ival{}
		}
		c := t.Args[1].BigVal()
		return ival{new(big.Int).Quo(a.lo, c), new(big.Int).Quo(a.hi, c)}
	case ORem:
		if !t.Args[1].IsConst() || t.Args[1].BigVal().Sign() <= 0 {
			return ival{}
		}
		c := new(big.Int).Sub(t.Args[1].BigVal(), big.NewInt(1))
		a := e.interval(t.Args[0], depth+1)
		lo, hi := new(big.Int).Neg(c), c
		if a.lo != nil && a.lo.Sign() >= 0 {
			lo = big.NewInt(0)
		}
		if a.hi != nil && a.hi.Sign() <= 0 {
			hi = big.NewInt(0)
		}
		return ival{lo, hi}
	case OIte:
		a, b := e.interval(t.Args[1], depth+1), e.interval(t.Args[2], depth+1)
		return ival{bmin(a.lo, b.lo), bmax(a.hi, b.hi)}
	case OWrap:
		r := typeRange(int(t.W), t.Signed)
		a := e.interval(t.Args[0], depth+1)
		if a.within(r) {
			return a
		}
		return r
	case OSat:
		r := typeRange(64, true)
		a := e.interval(t.Args[0], depth+1)
		lo, hi := r.lo, r.hi
		if a.lo != nil && a.lo.Cmp(lo) > 0 {
			lo = a.lo
		}
		if a.hi != nil && a.hi.Cmp(hi) < 0 {
			hi = a.hi
		}
		return ival{lo, hi}
	}
	return ival{}
}

// wrapT wraps unless the interval analysis shows the value already fits.
func (e *Exec) wrapT(t *Term, w int, signed bool, one bool) *Term {
	if !t.IsConst() {
		if e.interval(t, 0).within(typeRange(w, signed)) {
			return t
		}
	}
	if one {
		return Wrap1(t, w, signed)
	}
	return Wrap(t, w, signed)
}

func (e *Exec) setBound(v *Term, lo, hi *big.Int) {
	b := e.vbounds[v]
	if lo != nil && (b.lo == nil || lo.Cmp(b.lo) > 0) {
		b.lo = lo
	}
	if hi != nil && (b.hi == nil || hi.Cmp(b.hi) < 0) {
		b.hi = hi
	}
	e.vbounds[v] = b
}

// refine learns variable bounds from an asserted condition.
func (e *Exec) refine(c *Term, pos bool) {
	switch c.Op {
	case ONot:
		e.refine(c.Args[0], !pos)
	case OAnd:
		if pos {
			e.refine(c.Args[0], true)
			e.refine(c.Args[1], true)
		}
	case OOr:
		if !pos {
			e.refine(c.Args[0], false)
			e.refine(c.Args[1], false)
		}
	case OLt, OLe:
		a, b := c.Args[0], c.Args[1]
		strict := c.Op == OLt
		if !pos { // not(a<b) == b<=a ; not(a<=b) == b<a
			a, b = b, a
			strict = !strict
		}
		one := big.NewInt(1)
		if a.Op == OVar && b.IsConst() && b.Sort == SInt { // a < K / a <= K
			hi := b.BigVal()
			if strict {
				hi = new(big.Int).Sub(hi, one)
			}
			e.setBound(a, nil, hi)
		}
		if b.Op == OVar && a.IsConst() && a.Sort == SInt { // K < b / K <= b
			lo := a.BigVal()
			if strict {
				lo = new(big.Int).Add(lo, one)
			}
			e.setBound(b, lo, nil)
		}
	case OEq:
		if pos && c.Args[0].Sort == SInt {
			a, b := c.Args[0], c.Args[1]
			if a.Op == OVar && b.IsConst() {
				e.setBound(a, b.BigVal(), b.BigVal())
			} else if b.Op == OVar && a.IsConst() {
				e.setBound(b, a.BigVal(), a.BigVal())
			}
		}
	}
}
