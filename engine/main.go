package main

import (
	"encoding/json"
	"flag"
	"fmt"
	"go/types"
	"os"
	"path/filepath"
	"regexp"
	"runtime"
	"sort"
	"strings"
	"time"

	"golang.org/x/tools/go/packages"
	"golang.org/x/tools/go/ssa"
	"golang.org/x/tools/go/ssa/ssautil"
)

type TierCfg struct {
	Params  map[string]int `json:"params"`
	Preempt int            `json:"preempt"`
	Env     int            `json:"env"`
	BudgetS int            `json:"budget_s"`
	Skip    bool           `json:"skip"`
}

type RunSpec struct {
	Pkg          string   `json:"pkg"`
	Files        []string `json:"files"`
	Entry        string   `json:"entry"`
	Sequential   bool     `json:"sequential"`
	AllMapOrders bool     `json:"allMapOrders"`
	Race         bool     `json:"race"`
	Quick        TierCfg  `json:"quick"`
	Thorough     TierCfg  `json:"thorough"`
	Claim        string   `json:"claim"`
	NoReplay     bool     `json:"noReplay"`
	Solver       string   `json:"solver"`
	Opaque       []string `json:"opaque"`
	Canonical    bool     `json:"canonical"`
}

type PropSpec struct {
	Title  string    `json:"title"`
	Runs   []RunSpec `json:"runs"`
	Bounds string    `json:"bounds"`
	Outside []string `json:"outside"`
	Assumptions []string `json:"assumptions"`
}

var (
	verifDir = "/verif"
	repoDir  = "/repo"
)

func types_errorMethodSig() *types.Signature {
	return types.NewSignatureType(nil, nil, nil, nil, types.NewTuple(types.NewVar(0, nil, "", types.Typ[types.String])), false)
}

func timeDuration(v int64) time.Duration { return time.Duration(v) }

func parseDuration(s string) (int64, error) {
	d, err := time.ParseDuration(s)
	return int64(d), err
}

func main() {
	if d := os.Getenv("VERIF_DIR"); d != "" {
		verifDir = d
	}
	if d := os.Getenv("VERIF_REPO"); d != "" {
		repoDir = d
	}
	if len(os.Args) < 2 {
		fmt.Println("usage: gosym check <id> <quick|thorough> | run <pkg> <file> <entry> [flags]")
		os.Exit(2)
	}
	switch os.Args[1] {
	case "check":
		os.Exit(cmdCheck(os.Args[2:]))
	case "run":
		os.Exit(cmdRun(os.Args[2:]))
	case "replay":
		os.Exit(cmdReplay(os.Args[2:]))
	default:
		fmt.Println("unknown command")
		os.Exit(2)
	}
}

func loadIndex() map[string]*PropSpec {
	data, err := os.ReadFile(filepath.Join(verifDir, "harness", "index.json"))
	if err != nil {
		fmt.Println("cannot read index:", err)
		os.Exit(3)
	}
	idx := map[string]*PropSpec{}
	if err := json.Unmarshal(data, &idx); err != nil {
		fmt.Println("bad index:", err)
		os.Exit(3)
	}
	return idx
}

// overlayFor builds the overlay map for a set of harness files.
func overlayFor(files map[string]string) map[string][]byte {
	ov := map[string][]byte{}
	rt, _ := filepath.Glob(filepath.Join(verifDir, "harness", "zzverif", "*.go"))
	for _, f := range rt {
		b, _ := os.ReadFile(f)
		ov[filepath.Join(repoDir, "zzverif", filepath.Base(f))] = b
	}
	for target, src := range files {
		b, err := os.ReadFile(src)
		if err != nil {
			fmt.Println("cannot read harness", src, err)
			os.Exit(3)
		}
		ov[target] = b
	}
	return ov
}

func harnessTarget(pkg, file string) string {
	return filepath.Join(repoDir, pkg, "zz_verif_"+filepath.Base(file))
}

type loaded struct {
	prog *ssa.Program
	pkgs map[string]*ssa.Package // by dir relative to repo
}

func loadProgram(pkgDirs []string, files map[string]string) (*loaded, error) {
	cfg := &packages.Config{Mode: packages.LoadAllSyntax, Dir: repoDir, Tests: false, Overlay: overlayFor(files),
		Env: append(os.Environ(), "GOFLAGS=-mod=mod", "GOPROXY=off", "GOSUMDB=off", "GOTOOLCHAIN=local")}
	var pats []string
	for _, d := range pkgDirs {
		pats = append(pats, "./"+d)
	}
	pats = append(pats, "./zzverif")
	pkgs, err := packages.Load(cfg, pats...)
	if err != nil {
		return nil, err
	}
	nerr := 0
	packages.Visit(pkgs, nil, func(p *packages.Package) {
		for _, e := range p.Errors {
			if nerr < 20 {
				fmt.Println("LOAD ERROR:", e)
			}
			nerr++
		}
	})
	if nerr > 0 {
		return nil, fmt.Errorf("%d load errors", nerr)
	}
	prog, spkgs := ssautil.AllPackages(pkgs, ssa.InstantiateGenerics)
	prog.Build()
	l := &loaded{prog: prog, pkgs: map[string]*ssa.Package{}}
	for i, p := range pkgs {
		if spkgs[i] == nil {
			continue
		}
		rel := strings.TrimPrefix(p.PkgPath, "github.com/openconfig/gnmi/")
		l.pkgs[rel] = spkgs[i]
	}
	return l, nil
}

func readKnown() (map[string]bool, []string) {
	known := map[string]bool{}
	var lines []string
	data, err := os.ReadFile(filepath.Join(verifDir, "known_findings.txt"))
	if err != nil {
		return known, nil
	}
	re := regexp.MustCompile(`key=(\S+)`)
	for _, l := range strings.Split(string(data), "\n") {
		l = strings.TrimSpace(l)
		if strings.HasPrefix(l, "known:") {
			if m := re.FindStringSubmatch(l); m != nil {
				known[m[1]] = true
				lines = append(lines, l)
			}
		}
	}
	return known, lines
}

func tierOf(rs *RunSpec, tier string) TierCfg {
	if tier == "thorough" {
		t := rs.Thorough
		if t.Params == nil && t.BudgetS == 0 && t.Preempt == 0 && t.Env == 0 && !t.Skip {
			return rs.Quick
		}
		return t
	}
	return rs.Quick
}

func cmdCheck(args []string) int {
	fs := flag.NewFlagSet("check", flag.ExitOnError)
	only := fs.String("only", "", "run only harnesses whose entry contains this")
	workers := fs.Int("workers", runtime.NumCPU(), "worker count")
	noreplay := fs.Bool("noreplay", false, "skip native replay")
	if len(args) < 2 {
		fmt.Println("usage: gosym check <id> <tier>")
		return 2
	}
	id, tier := args[0], args[1]
	fs.Parse(args[2:])
	if t := os.Getenv("VERIF_TIER"); t != "" && tier == "" {
		tier = t
	}
	idx := loadIndex()
	ps := idx[id]
	if ps == nil {
		fmt.Println("unknown property", id)
		return 3
	}
	t0 := time.Now()
	known, _ := readKnown()
	// load everything this property needs in one go
	files := map[string]string{}
	dirSet := map[string]bool{}
	for i := range ps.Runs {
		rs := &ps.Runs[i]
		dirSet[rs.Pkg] = true
		for _, f := range rs.Files {
			files[harnessTarget(rs.Pkg, f)] = filepath.Join(verifDir, "harness", f)
		}
	}
	var dirs []string
	for d := range dirSet {
		dirs = append(dirs, d)
	}
	sort.Strings(dirs)
	l, err := loadProgram(dirs, files)
	if err != nil {
		fmt.Println("INCONCLUSIVE property="+id, "load failed:", err)
		return 3
	}
	loadT := time.Since(t0)
	handlers := buildHandlers()
	buildHarnessHandlers(handlers)
	buildProbeHandlers(handlers)
	buildConnectives(handlers)
	var results []*RunResult
	for i := range ps.Runs {
		rs := &ps.Runs[i]
		if *only != "" && !strings.Contains(rs.Entry, *only) {
			continue
		}
		tc := tierOf(rs, tier)
		if tc.Skip {
			continue
		}
		pkg := l.pkgs[rs.Pkg]
		if pkg == nil {
			fmt.Println("INCONCLUSIVE property="+id, "package not loaded:", rs.Pkg)
			return 3
		}
		entry := pkg.Func(rs.Entry)
		if entry == nil {
			fmt.Println("INCONCLUSIVE property="+id, "entry not found:", rs.Entry)
			return 3
		}
		cfg := &RunConfig{Harness: rs.Entry, PkgDir: rs.Pkg, Preempt: tc.Preempt, EnvEvents: tc.Env, AllMapOrders: rs.AllMapOrders,
			Race: rs.Race, StepBound: 3_000_000, Sequential: rs.Sequential, Params: tc.Params, MaxPaths: 50_000_000, Solver: rs.Solver, Opaque: rs.Opaque, Canonical: rs.Canonical}
		budget := time.Duration(tc.BudgetS) * time.Second
		if budget == 0 {
			budget = 10 * time.Minute
		}
		cfg.AtomFallback = 2
		res := runHarness(l.prog, entry, cfg, handlers, known, *workers, budget)
		if res.AtomAbort {
			// the code under test inspects the content of names: repeat with names drawn as
			// strings of 0..2 symbolic ASCII bytes (exact within that bound)
			fmt.Printf("  %-34s names are inspected by the code (%s): repeating with names as byte strings of <= %d ASCII bytes\n", rs.Entry, firstUnsupported(res.Notes), cfg.AtomFallback)
			cfg2 := *cfg
			cfg2.AtomBytes, cfg2.AtomFallback = cfg.AtomFallback, 0
			res = runHarness(l.prog, entry, &cfg2, handlers, known, *workers, budget)
			if res.Notes == nil {
				res.Notes = map[string]int{}
			}
			res.Notes[fmt.Sprintf("bound reduced: the code inspects name content, names drawn as strings of 0..%d ASCII bytes instead of arbitrary strings", cfg2.AtomBytes)]++
		}
		res.spec = rs
		results = append(results, res)
		fmt.Printf("  %-34s paths=%d forks=%d oblig=%d/%d viol=%d known=%d assume=%d unsup=%d unwind=%d inconcl=%d internal=%d q=%d solver=%.1fs wall=%.1fs\n",
			rs.Entry, res.Stats.Paths, res.Stats.Forks, res.Stats.Discharged, res.Stats.Obligations, res.Stats.Violations, res.Stats.Known,
			res.Stats.Status["assume"], res.Stats.Unsupported, res.Stats.Unwind, res.Stats.Inconclusive, res.Stats.Internal, res.SolverQ, res.SolverT.Seconds(), res.Wall.Seconds())
		for n, c := range res.Notes {
			fmt.Printf("    note(%d): %s\n", c, firstLine(n))
		}
	}
	return report(id, tier, ps, results, loadT, time.Since(t0), *noreplay)
}

func firstUnsupported(notes map[string]int) string {
	for n := range notes {
		if strings.HasPrefix(n, "unsupported: ") && strings.Contains(n, "atom") {
			return firstLine(n)
		}
	}
	return "?"
}

func firstLine(s string) string {
	if os.Getenv("VERIF_DEBUG") != "" {
		return s
	}
	if i := strings.Index(s, "\n"); i >= 0 {
		return s[:i]
	}
	return s
}

// cmdRun: ad-hoc run of one harness file (development aid).
func cmdRun(args []string) int {
	fs := flag.NewFlagSet("run", flag.ExitOnError)
	preempt := fs.Int("preempt", 0, "")
	env := fs.Int("env", 0, "")
	orders := fs.Bool("orders", false, "")
	race := fs.Bool("race", false, "")
	workers := fs.Int("workers", runtime.NumCPU(), "")
	budget := fs.Int("budget", 300, "")
	params := fs.String("params", "", "k=v,k=v")
	solverName := fs.String("solver", "", "z3 (default) or cvc5")
	trailArg := fs.String("trail", "", "replay exactly one path: comma separated decisions")
	opaqueArg := fs.String("opaque", "", "comma separated external functions returning zero values")
	canonical := fs.Bool("canonical", false, "one canonical schedule")
	if len(args) < 3 {
		fmt.Println("usage: gosym run <pkgdir> <harnessfile[,file]> <entry> [flags]")
		return 2
	}
	pkgDir, file, entryName := args[0], args[1], args[2]
	fs.Parse(args[3:])
	files := map[string]string{}
	for _, f := range strings.Split(file, ",") {
		files[harnessTarget(pkgDir, f)] = f
	}
	t0 := time.Now()
	l, err := loadProgram([]string{pkgDir}, files)
	if err != nil {
		fmt.Println("load failed:", err)
		return 3
	}
	fmt.Printf("loaded+built in %.1fs\n", time.Since(t0).Seconds())
	pkg := l.pkgs[pkgDir]
	entry := pkg.Func(entryName)
	if entry == nil {
		fmt.Println("entry not found")
		return 3
	}
	handlers := buildHandlers()
	buildHarnessHandlers(handlers)
	buildProbeHandlers(handlers)
	buildConnectives(handlers)
	known, _ := readKnown()
	pm := map[string]int{}
	for _, kv := range strings.Split(*params, ",") {
		if i := strings.Index(kv, "="); i > 0 {
			var v int
			fmt.Sscan(kv[i+1:], &v)
			pm[kv[:i]] = v
		}
	}
	cfg := &RunConfig{Harness: entryName, PkgDir: pkgDir, Preempt: *preempt, EnvEvents: *env, AllMapOrders: *orders, Race: *race,
		StepBound: 3_000_000, Params: pm, MaxPaths: 50_000_000, Solver: *solverName}
	if *opaqueArg != "" {
		cfg.Opaque = strings.Split(*opaqueArg, ",")
	}
	cfg.Canonical = *canonical
	if *trailArg != "" {
		var tr []int
		for _, x := range strings.Split(strings.Trim(*trailArg, "[]"), ",") {
			var v int
			fmt.Sscan(strings.TrimSpace(x), &v)
			tr = append(tr, v)
		}
		cfg.OneTrail = tr
		*workers = 1
	}
	res := runHarness(l.prog, entry, cfg, handlers, known, *workers, time.Duration(*budget)*time.Second)
	b, _ := json.MarshalIndent(res.Stats, "", " ")
	fmt.Println(string(b))
	fmt.Printf("solver queries=%d time=%.2fs wall=%.2fs funcs=%d stubs=%v\n", res.SolverQ, res.SolverT.Seconds(), res.Wall.Seconds(), len(res.Funcs), res.Stubs)
	for n, c := range res.Notes {
		fmt.Printf("note(%d): %s\n", c, n)
	}
	for _, v := range res.Violations {
		vb, _ := json.Marshal(v)
		s := string(vb)
		if len(s) > 3000 && *trailArg == "" {
			s = s[:3000]
		}
		fmt.Println("VIOLATION:", s)
	}
	for i, s := range res.Samples {
		if i < 3 {
			sb, _ := json.Marshal(s)
			fmt.Println("SAMPLE:", string(sb))
		}
	}
	return 0
}

// cmdReplay re-runs one recorded counterexample natively against /repo's current tree.
func cmdReplay(args []string) int {
	if len(args) < 1 {
		fmt.Println("usage: gosym replay <file>")
		return 2
	}
	data, err := os.ReadFile(args[0])
	if err != nil {
		fmt.Println(err)
		return 2
	}
	var rec struct {
		Property string      `json:"property"`
		Case     *replayCase `json:"case"`
	}
	if err := json.Unmarshal(data, &rec); err != nil || rec.Case == nil {
		fmt.Println("bad replay file")
		return 2
	}
	idx := loadIndex()
	ps := idx[rec.Property]
	if ps == nil {
		fmt.Println("unknown property", rec.Property)
		return 2
	}
	for i := range ps.Runs {
		rs := &ps.Runs[i]
		if rs.Entry != rec.Case.Entry {
			continue
		}
		if !rs.Sequential {
			fmt.Println("concurrent harness: counterexample is confirmed by engine re-execution only; schedule:")
			for _, l := range rec.Case.Schedule {
				fmt.Println("  ", l)
			}
			return 0
		}
		res, out, err := nativeReplay(rs.Pkg, rs.Files, []*replayCase{rec.Case})
		if err != nil {
			fmt.Println("replay failed to run:", err)
			fmt.Println(tail(out, 3000))
			return 3
		}
		b, _ := json.MarshalIndent(res[0], "", " ")
		fmt.Println(string(b))
		if res[0].Outcome == "assert" || res[0].Outcome == "panic" {
			fmt.Printf("VIOLATION property=%s replay=%s\n", rec.Property, args[0])
			return 1
		}
		return 0
	}
	fmt.Println("harness not found:", rec.Case.Entry)
	return 2
}
