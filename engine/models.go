package main

// Intrinsics and stubs (DESIGN §3.3–3.7). Every stub that is hit is recorded and
// listed in the evidence: each one is part of the claim.

import (
	"fmt"
	"math"
	"unicode/utf8"
	"go/types"
	"math/big"
	"sort"
	"strconv"
	"strings"

	"golang.org/x/tools/go/ssa"
)

type handler func(e *Exec, fn *ssa.Function, args []Value) Value

const zzPkg = "github.com/openconfig/gnmi/zzverif"

// zero Time is year 1 = -62135596800 s before the Unix epoch
var zeroTimeNS, _ = new(big.Int).SetString("-62135596800000000000", 10)

var timeMarker = &Cell{}

func (e *Exec) timeNS(v Value) *Term {
	so := v.(*StructObj)
	if c, _ := so.fields[2].v.(*Cell); c == nil {
		return KBig(zeroTimeNS) // untouched zero value
	}
	return so.fields[1].v.(*Term)
}

func (e *Exec) mkTime(t types.Type, ns *Term) Value {
	so := e.zero(t).(*StructObj)
	so.fields[1].v = ns
	so.fields[2].v = timeMarker
	return so
}

func resultType(fn *ssa.Function, i int) types.Type { return fn.Signature.Results().At(i).Type() }

func (e *Exec) intrinsic(fn *ssa.Function, args []Value, free []Value) (Value, bool) {
	h, ok := e.sh.handlerFor(fn)
	if !ok {
		return nil, false
	}
	e.sh.markStub(fn)
	return h(e, fn, args), true
}

func noop(e *Exec, fn *ssa.Function, args []Value) Value {
	if fn.Signature.Results().Len() == 0 {
		return nil
	}
	return e.zero(fn.Signature.Results())
}

func (e *Exec) redirect(target string) handler {
	return func(e *Exec, fn *ssa.Function, args []Value) Value {
		p := e.prog.ImportedPackage(zzPkg)
		if p == nil {
			panic(unsupported("runtime package not loaded for " + target))
		}
		f := p.Func(target)
		if f == nil {
			panic(unsupported("runtime model missing: " + target))
		}
		return e.call(f, args, nil)
	}
}

func opaqueStr(e *Exec, what string) Str {
	t := e.freshVar("opq_"+what, SInt)
	e.assertPC(Le(K(0), t))
	return Str{atom: t}
}

// concArg converts a concrete engine value to a native Go value for formatting.
func concArg(v Value) (interface{}, bool) {
	switch x := v.(type) {
	case Iface:
		if x.t == nil {
			return nil, true
		}
		if oe, ok := x.v.(*opaqueErr); ok {
			return oe.name, true
		}
		return concArg(x.v)
	case Str:
		if x.isConc() {
			return x.conc, true
		}
	case *Term:
		if x.IsConst() {
			switch x.Sort {
			case SBool:
				return x.BoolVal(), true
			case SInt:
				if x.Big == nil {
					return x.K, true
				}
				return x.Big, true
			default:
				return x.F, true
			}
		}
	}
	return nil, false
}

// callStringers: formatting an operand whose dynamic type is declared in the repository (not
// generated code) with a String() or Error() method calls that method - the text is not modelled,
// but what the method does (locks it takes, fields it reads) is part of the program's behaviour.
// With a concrete format string only operands of %v %s %q (and their flagged forms) are formatted
// that way; with an unknown format all are.
func (e *Exec) callStringers(format string, known bool, va Slice) {
	var verbs []byte
	if known {
		for i := 0; i < len(format); i++ {
			if format[i] != '%' {
				continue
			}
			i++
			for i < len(format) && strings.IndexByte("+-# 0123456789.*[]", format[i]) >= 0 {
				i++
			}
			if i < len(format) && format[i] != '%' {
				verbs = append(verbs, format[i])
			}
		}
	}
	for i := 0; i < va.len; i++ {
		if known && i < len(verbs) && strings.IndexByte("vsqxX", verbs[i]) < 0 {
			continue
		}
		d, ok := va.arr.elems[va.off+i].v.(Iface)
		if !ok || d.t == nil || d.t == opaqueErrType || d.t == reflectTypeType {
			continue
		}
		named, _ := d.t.(*types.Named)
		if p, isP := d.t.(*types.Pointer); isP {
			named, _ = p.Elem().(*types.Named)
		}
		if named == nil || named.Obj().Pkg() == nil || !runsInitPath(named.Obj().Pkg().Path()) {
			continue
		}
		if c, isCell := d.v.(*Cell); isCell && c == nil {
			continue // nil pointer receivers: fmt prints <nil> (it recovers the panic)
		}
		for _, m := range []string{"Error", "String"} {
			sel := e.prog.MethodSets.MethodSet(d.t).Lookup(nil, m)
			if sel == nil {
				continue
			}
			f := e.prog.MethodValue(sel)
			if f == nil || f.Blocks == nil || f.Signature.Params().Len() != 0 || f.Signature.Results().Len() != 1 {
				continue
			}
			if _, has := e.sh.handlerFor(f); has {
				break
			}
			if e.inStringer > 2 {
				break
			}
			e.inStringer++
			e.call(f, []Value{d.v}, nil)
			e.inStringer--
			break
		}
	}
}

// noteTimerDelay accumulates "some timer was armed with a negative delay" (h.NegativeTimerDelay).
func (e *Exec) noteTimerDelay(d Value) {
	if t, ok := d.(*Term); ok {
		if e.negTimer == nil {
			e.negTimer = tFalse
		}
		e.negTimer = Or(e.negTimer, Lt(t, K(0)))
	}
}

func sprintfModel(e *Exec, fn *ssa.Function, args []Value) Value {
	switch fn.Name() {
	case "Sprintf", "Errorf":
		if f, ok := args[0].(Str); ok {
			if va, ok := args[1].(Slice); ok {
				e.callStringers(f.conc, f.isConc(), va)
			}
		}
	default:
		if va, ok := args[0].(Slice); ok {
			e.callStringers("", false, va)
		}
	}
	return sprintfModel0(e, fn, args)
}

func sprintfModel0(e *Exec, fn *ssa.Function, args []Value) Value {
	var format string
	var va Slice
	switch fn.Name() {
	case "Sprintf", "Errorf":
		f, ok := args[0].(Str)
		if !ok || !f.isConc() {
			return opaqueStr(e, "fmt")
		}
		format = f.conc
		va = args[1].(Slice)
	default:
		va = args[0].(Slice)
	}
	native := make([]interface{}, va.len)
	for i := 0; i < va.len; i++ {
		v, ok := concArg(va.arr.elems[va.off+i].v)
		if !ok {
			return opaqueStr(e, "fmt")
		}
		native[i] = v
	}
	switch fn.Name() {
	case "Sprintf", "Errorf":
		return Str{conc: fmt.Sprintf(format, native...)}
	case "Sprint":
		return Str{conc: fmt.Sprint(native...)}
	case "Sprintln":
		return Str{conc: fmt.Sprintln(native...)}
	}
	return opaqueStr(e, "fmt")
}

func errName(v Value) string {
	if s, ok := v.(Str); ok && s.isConc() {
		return s.conc
	}
	return "error"
}

func (e *Exec) opaqueMethod(name string) *ssa.Function {
	// methods on opaque errors are dispatched to synthetic handlers through a marker function
	f := e.sh.opaqueFns[name]
	if f == nil {
		panic(unsupported("method " + name + " on opaque error"))
	}
	return f
}

type rndSource struct {
	seed  *Term
	draws []*rndDraw
	alias *rndSource
}

type rndDraw struct {
	kind string
	n    *Term
	v    *Term
}

func (e *Exec) rndOf(c *Cell) (*rndSource, *int) {
	st := c.v.(*rndState)
	src := st.src
	for src.alias != nil {
		src = src.alias
	}
	return src, &st.pos
}

type rndState struct {
	src *rndSource
	pos int
}

func (e *Exec) newRnd(seed *Term) *Cell {
	src := &rndSource{seed: seed}
	if seed != nil {
		for _, o := range e.rndSources {
			if o.seed == nil {
				continue
			}
			if e.decide(Eq(o.seed, seed)) {
				src.alias = o
				break
			}
		}
	}
	e.rndSources = append(e.rndSources, src)
	return &Cell{v: &rndState{src: src}}
}

// draw returns the pos-th draw of the stream (same seed => same draws), constrained to its contract.
func (e *Exec) draw(c *Cell, kind string, n *Term, s Sort) *Term {
	src, pos := e.rndOf(c)
	i := *pos
	*pos++
	if i < len(src.draws) {
		d := src.draws[i]
		if d.kind == kind && (d.n == n || (d.n != nil && n != nil && e.decide(Eq(d.n, n)))) {
			return d.v
		}
		// a different request at the same position of the same stream: independent value
		v := e.freshDraw(kind, n, s)
		return v
	}
	v := e.freshDraw(kind, n, s)
	src.draws = append(src.draws, &rndDraw{kind: kind, n: n, v: v})
	return v
}

func (e *Exec) freshDraw(kind string, n *Term, s Sort) *Term {
	v := e.freshVar("rnd_"+kind, s)
	e.inputs = append(e.inputs, inputRec{Kind: "rnd", Name: kind, t: v})
	switch {
	case s == SInt && n != nil:
		e.assertPC(Le(K(0), v))
		e.assertPC(Lt(v, n))
	case s == SInt:
		e.assertPC(Le(K(0), v))
		e.assertPC(Le(v, K(1<<62-1+1<<62)))
	case s == SF64:
		e.assertPC(FCmp(OFLe, KF(0, SF64), v))
		e.assertPC(FCmp(OFLt, v, KF(1, SF64)))
		if e.unitFloats == nil {
			e.unitFloats = map[*Term]bool{}
		}
		e.unitFloats[v] = true
	}
	return v
}

func buildHandlers() map[string]handler {
	h := map[string]handler{}
	// ---- sync ----
	h["(*sync.Mutex).Lock"] = func(e *Exec, fn *ssa.Function, a []Value) Value { e.lock(a[0].(*Cell)); return nil }
	h["(*sync.Mutex).Unlock"] = func(e *Exec, fn *ssa.Function, a []Value) Value { e.unlock(a[0].(*Cell)); return nil }
	h["(*sync.Mutex).TryLock"] = func(e *Exec, fn *ssa.Function, a []Value) Value { return B(e.tryLock(a[0].(*Cell))) }
	h["(*sync.RWMutex).RLock"] = func(e *Exec, fn *ssa.Function, a []Value) Value { e.rlock(a[0].(*Cell)); return nil }
	h["(*sync.RWMutex).RUnlock"] = func(e *Exec, fn *ssa.Function, a []Value) Value { e.runlock(a[0].(*Cell)); return nil }
	h["(*sync.RWMutex).Lock"] = func(e *Exec, fn *ssa.Function, a []Value) Value { e.wlock(a[0].(*Cell)); return nil }
	h["(*sync.RWMutex).Unlock"] = func(e *Exec, fn *ssa.Function, a []Value) Value { e.wunlock(a[0].(*Cell)); return nil }
	h["(*sync.Once).Do"] = func(e *Exec, fn *ssa.Function, a []Value) Value {
		e.onceDo(a[0].(*Cell), a[1].(*Closure))
		return nil
	}
	h["(*sync.WaitGroup).Add"] = func(e *Exec, fn *ssa.Function, a []Value) Value {
		w := e.wgOf(a[0].(*Cell))
		d, ok := a[1].(*Term).ConstInt64()
		if !ok {
			panic(unsupported("symbolic WaitGroup delta"))
		}
		e.yield(func() bool { return true }, a[0])
		e.release(&w.vc)
		w.n += int(d)
		if w.n < 0 {
			e.goPanic("sync: negative WaitGroup counter")
		}
		return nil
	}
	h["(*sync.WaitGroup).Done"] = func(e *Exec, fn *ssa.Function, a []Value) Value {
		w := e.wgOf(a[0].(*Cell))
		e.yield(func() bool { return true }, a[0])
		e.release(&w.vc)
		w.n--
		if w.n < 0 {
			e.goPanic("sync: negative WaitGroup counter")
		}
		return nil
	}
	h["(*sync.WaitGroup).Wait"] = func(e *Exec, fn *ssa.Function, a []Value) Value {
		w := e.wgOf(a[0].(*Cell))
		e.yield(func() bool { return w.n == 0 }, a[0])
		e.acquire(w.vc)
		return nil
	}
	// ---- sync/atomic: visible operations on one cell ----
	atomicOp := func(f func(e *Exec, c *Cell, a []Value, fn *ssa.Function) Value) handler {
		return func(e *Exec, fn *ssa.Function, a []Value) Value {
			c, _ := a[0].(*Cell)
			if c == nil {
				e.goPanic("nil pointer dereference (atomic)")
			}
			e.yield(func() bool { return true }, c)
			if c.meta == nil {
				c.meta = &cellMeta{}
			}
			// atomics synchronise: model as acquire+release on a per-cell clock
			av := e.atomicVC(c)
			e.acquire(*av)
			r := f(e, c, a, fn)
			e.release(av)
			return r
		}
	}
	for _, ty := range []string{"Int32", "Int64", "Uint32", "Uint64"} {
		ty := ty
		w := 64
		if strings.HasSuffix(ty, "32") {
			w = 32
		}
		sg := strings.HasPrefix(ty, "Int")
		h["sync/atomic.Add"+ty] = atomicOp(func(e *Exec, c *Cell, a []Value, fn *ssa.Function) Value {
			r := Wrap1(RawAdd(c.v.(*Term), a[1].(*Term)), w, sg)
			c.v = r
			return r
		})
		h["sync/atomic.Load"+ty] = atomicOp(func(e *Exec, c *Cell, a []Value, fn *ssa.Function) Value { return c.v })
		h["sync/atomic.Store"+ty] = atomicOp(func(e *Exec, c *Cell, a []Value, fn *ssa.Function) Value { c.v = a[1]; return nil })
		h["sync/atomic.Swap"+ty] = atomicOp(func(e *Exec, c *Cell, a []Value, fn *ssa.Function) Value { o := c.v; c.v = a[1]; return o })
		h["sync/atomic.CompareAndSwap"+ty] = atomicOp(func(e *Exec, c *Cell, a []Value, fn *ssa.Function) Value {
			if e.decide(Eq(c.v.(*Term), a[1].(*Term))) {
				c.v = a[2]
				return tTrue
			}
			return tFalse
		})
	}
	// pointer atomics (atomic.Pointer[T] is built on them): the cell holds the pointer value itself
	h["sync/atomic.LoadPointer"] = atomicOp(func(e *Exec, c *Cell, a []Value, fn *ssa.Function) Value { return c.v })
	h["sync/atomic.StorePointer"] = atomicOp(func(e *Exec, c *Cell, a []Value, fn *ssa.Function) Value { c.v = a[1]; return nil })
	h["sync/atomic.SwapPointer"] = atomicOp(func(e *Exec, c *Cell, a []Value, fn *ssa.Function) Value { o := c.v; c.v = a[1]; return o })
	h["sync/atomic.CompareAndSwapPointer"] = atomicOp(func(e *Exec, c *Cell, a []Value, fn *ssa.Function) Value {
		if e.decide(e.eqVal(c.v, a[1])) {
			c.v = a[2]
			return tTrue
		}
		return tFalse
	})
	// ---- glog, logging ----
	h["github.com/golang/glog.V"] = func(e *Exec, fn *ssa.Function, a []Value) Value { return e.zero(resultType(fn, 0)) }
	// ---- fmt / errors ----
	h["fmt.Sprintf"] = sprintfModel
	h["fmt.Sprint"] = sprintfModel
	h["fmt.Sprintln"] = sprintfModel
	h["fmt.Errorf"] = func(e *Exec, fn *ssa.Function, a []Value) Value {
		if f, ok := a[0].(Str); ok {
			if va, ok := a[1].(Slice); ok {
				e.callStringers(f.conc, f.isConc(), va)
			}
		}
		return mkOpaqueErr("fmt.Errorf("+errName(a[0])+")", nil)
	}
	h["errors.New"] = func(e *Exec, fn *ssa.Function, a []Value) Value { return mkOpaqueErr(errName(a[0]), nil) }
	h["errors.Is"] = func(e *Exec, fn *ssa.Function, a []Value) Value { return e.eqVal(a[0], a[1]) }
	for _, n := range []string{"fmt.Printf", "fmt.Println", "fmt.Print", "fmt.Fprintf", "fmt.Fprintln", "fmt.Fprint", "log.Printf", "log.Println", "log.Print"} {
		h[n] = noop
	}
	for _, n := range []string{"log.Fatal", "log.Fatalf", "log.Fatalln", "os.Exit", "runtime.Goexit"} {
		h[n] = func(e *Exec, fn *ssa.Function, a []Value) Value { panic(pathEnd{"exit", fn.String()}) }
	}
	// ---- time ----
	h["time.Now"] = func(e *Exec, fn *ssa.Function, a []Value) Value { return e.nowTime(resultType(fn, 0)) }
	h["time.Unix"] = func(e *Exec, fn *ssa.Function, a []Value) Value {
		sec, nsec := a[0].(*Term), a[1].(*Term)
		return e.mkTime(resultType(fn, 0), RawAdd(RawMul(sec, K(1000000000)), nsec))
	}
	h["(time.Time).After"] = func(e *Exec, fn *ssa.Function, a []Value) Value { return Lt(e.timeNS(a[1]), e.timeNS(a[0])) }
	h["(time.Time).Before"] = func(e *Exec, fn *ssa.Function, a []Value) Value { return Lt(e.timeNS(a[0]), e.timeNS(a[1])) }
	h["(time.Time).Equal"] = func(e *Exec, fn *ssa.Function, a []Value) Value { return Eq(e.timeNS(a[0]), e.timeNS(a[1])) }
	h["(time.Time).IsZero"] = func(e *Exec, fn *ssa.Function, a []Value) Value { return Eq(e.timeNS(a[0]), KBig(zeroTimeNS)) }
	h["(time.Time).Sub"] = func(e *Exec, fn *ssa.Function, a []Value) Value {
		return e.satT(RawSub(e.timeNS(a[0]), e.timeNS(a[1])))
	}
	h["(time.Time).Add"] = func(e *Exec, fn *ssa.Function, a []Value) Value {
		return e.mkTime(resultType(fn, 0), RawAdd(e.timeNS(a[0]), a[1].(*Term)))
	}
	h["(time.Time).UnixNano"] = func(e *Exec, fn *ssa.Function, a []Value) Value { return e.wrapT(e.timeNS(a[0]), 64, true, false) }
	h["(time.Time).Unix"] = func(e *Exec, fn *ssa.Function, a []Value) Value {
		return floorDiv(e.timeNS(a[0]), K(1000000000))
	}
	h["(time.Time).In"] = func(e *Exec, fn *ssa.Function, a []Value) Value { return a[0] }
	h["(time.Time).UTC"] = func(e *Exec, fn *ssa.Function, a []Value) Value { return a[0] }
	h["(time.Time).Local"] = func(e *Exec, fn *ssa.Function, a []Value) Value { return a[0] }
	h["(time.Time).Format"] = func(e *Exec, fn *ssa.Function, a []Value) Value { return opaqueStr(e, "timefmt") }
	h["(time.Time).String"] = func(e *Exec, fn *ssa.Function, a []Value) Value { return opaqueStr(e, "timefmt") }
	h["(time.Duration).String"] = func(e *Exec, fn *ssa.Function, a []Value) Value {
		if v, ok := a[0].(*Term).ConstInt64(); ok {
			return Str{conc: durString(v)}
		}
		return opaqueStr(e, "dur")
	}
	h["time.Since"] = func(e *Exec, fn *ssa.Function, a []Value) Value {
		now := e.nowTime(a[0].(*StructObj).typ)
		return e.satT(RawSub(e.timeNS(now), e.timeNS(a[0])))
	}
	h["time.Sleep"] = func(e *Exec, fn *ssa.Function, a []Value) Value {
		e.yield(func() bool { return true }, nil)
		return nil
	}
	h["time.NewTimer"] = func(e *Exec, fn *ssa.Function, a []Value) Value {
		e.noteTimerDelay(a[0])
		pt := resultType(fn, 0).(*types.Pointer)
		so := e.zero(pt.Elem()).(*StructObj)
		elem := so.typ.Underlying().(*types.Struct).Field(0).Type().Underlying().(*types.Chan).Elem()
		t := e.newTimer(elem, nil)
		so.fields[0].v = t.ch
		c := &Cell{v: so}
		e.timerOf[c] = t
		return c
	}
	h["time.AfterFunc"] = func(e *Exec, fn *ssa.Function, a []Value) Value {
		pt := resultType(fn, 0).(*types.Pointer)
		so := e.zero(pt.Elem()).(*StructObj)
		t := e.newTimer(nil, a[1].(*Closure))
		c := &Cell{v: so}
		e.timerOf[c] = t
		return c
	}
	h["time.After"] = func(e *Exec, fn *ssa.Function, a []Value) Value {
		elem := resultType(fn, 0).Underlying().(*types.Chan).Elem()
		t := e.newTimer(elem, nil)
		return t.ch
	}
	h["(*time.Timer).Stop"] = func(e *Exec, fn *ssa.Function, a []Value) Value {
		t := e.timerOf[a[0].(*Cell)]
		if t == nil {
			panic(unsupported("Stop on unknown timer"))
		}
		e.yield(func() bool { return true }, t)
		was := t.armed
		t.armed = false
		return B(was)
	}
	h["(*time.Timer).Reset"] = func(e *Exec, fn *ssa.Function, a []Value) Value {
		t := e.timerOf[a[0].(*Cell)]
		if t == nil {
			panic(unsupported("Reset on unknown timer"))
		}
		e.yield(func() bool { return true }, t)
		e.noteTimerDelay(a[1])
		was := t.armed
		t.armed = true
		return B(was)
	}
	// ---- context: Go-written model in the overlay runtime ----
	// (installed in Shared.handlerFor because it needs the program)
	// ---- protobuf ----
	h["google.golang.org/protobuf/proto.Equal"] = func(e *Exec, fn *ssa.Function, a []Value) Value { return e.deepEq(a[0], a[1]) }
	h["google.golang.org/protobuf/proto.Clone"] = func(e *Exec, fn *ssa.Function, a []Value) Value { return e.deepCopy(a[0]) }
	h["google.golang.org/protobuf/proto.Size"] = func(e *Exec, fn *ssa.Function, a []Value) Value {
		t := e.freshVar("protosize", SInt)
		e.assertPC(Le(K(0), t))
		e.assertPC(Lt(t, K(1<<31)))
		return t
	}
	h["google.golang.org/protobuf/encoding/prototext.Format"] = func(e *Exec, fn *ssa.Function, a []Value) Value {
		return opaqueStr(e, "prototext")
	}
	h["google.golang.org/protobuf/encoding/prototext.MarshalOptions.Format"] = h["google.golang.org/protobuf/encoding/prototext.Format"]
	// ---- gRPC status / peer / metadata ----
	statusErr := func(e *Exec, fn *ssa.Function, a []Value) Value {
		return mkOpaqueErr("status", a[0].(*Term))
	}
	h["google.golang.org/grpc/status.Error"] = statusErr
	h["google.golang.org/grpc/status.Errorf"] = statusErr
	h["google.golang.org/grpc/status.Code"] = func(e *Exec, fn *ssa.Function, a []Value) Value {
		i := a[0].(Iface)
		if i.t == nil {
			return K(0)
		}
		if oe, ok := i.v.(*opaqueErr); ok && oe.code != nil {
			return oe.code
		}
		return K(2) // codes.Unknown
	}
	h["google.golang.org/grpc/peer.FromContext"] = func(e *Exec, fn *ssa.Function, a []Value) Value {
		pt := resultType(fn, 0).(*types.Pointer)
		so := e.zero(pt.Elem()).(*StructObj)
		return Tuple{&Cell{v: so}, tTrue}
	}
	h["google.golang.org/grpc/metadata.NewOutgoingContext"] = func(e *Exec, fn *ssa.Function, a []Value) Value { return a[0] }
	h["google.golang.org/grpc/metadata.AppendToOutgoingContext"] = func(e *Exec, fn *ssa.Function, a []Value) Value { return a[0] }
	// ---- math/rand ----
	h["math/rand.NewSource"] = func(e *Exec, fn *ssa.Function, a []Value) Value {
		return Iface{t: rndSourceType, v: e.newRnd(a[0].(*Term))}
	}
	h["math/rand.New"] = func(e *Exec, fn *ssa.Function, a []Value) Value {
		src := a[0].(Iface)
		if src.t != rndSourceType {
			panic(unsupported("rand.New with foreign source"))
		}
		return src.v.(*Cell)
	}
	h["(*math/rand.Rand).Int63n"] = func(e *Exec, fn *ssa.Function, a []Value) Value {
		n := a[1].(*Term)
		e.obligation(Le(n, K(0)), "panic", "panic: invalid argument to Int63n")
		return e.draw(a[0].(*Cell), "int63n", n, SInt)
	}
	h["(*math/rand.Rand).Intn"] = func(e *Exec, fn *ssa.Function, a []Value) Value {
		n := a[1].(*Term)
		e.obligation(Le(n, K(0)), "panic", "panic: invalid argument to Intn")
		return e.draw(a[0].(*Cell), "intn", n, SInt)
	}
	h["(*math/rand.Rand).Int31n"] = h["(*math/rand.Rand).Intn"]
	h["(*math/rand.Rand).Int63"] = func(e *Exec, fn *ssa.Function, a []Value) Value {
		return e.draw(a[0].(*Cell), "int63", nil, SInt)
	}
	h["(*math/rand.Rand).Shuffle"] = func(e *Exec, fn *ssa.Function, a []Value) Value {
		n := int(e.concretize(a[1].(*Term), 0, 16, "shuffle length"))
		swap := a[2].(*Closure)
		// Fisher-Yates with each index an arbitrary draw: every permutation is reachable
		for i := n - 1; i > 0; i-- {
			j := e.concretize(e.draw(a[0].(*Cell), "shuffle", K(int64(i+1)), SInt), 0, int64(i), "shuffle index")
			e.call(swap.fn, []Value{K(int64(i)), K(j)}, swap.free)
		}
		return nil
	}
	h["(*math/rand.Rand).Float64"] = func(e *Exec, fn *ssa.Function, a []Value) Value {
		return e.draw(a[0].(*Cell), "float64", nil, SF64)
	}
	// package-level functions draw from the process-global, automatically seeded source: an
	// unseeded source of its own (never equal to any seeded one, every draw a fresh value)
	for _, m := range []string{"Int63n", "Intn", "Int31n", "Int63", "Shuffle", "Float64"} {
		mh := h["(*math/rand.Rand)."+m]
		h["math/rand."+m] = func(e *Exec, fn *ssa.Function, a []Value) Value {
			if e.globalRnd == nil {
				e.globalRnd = e.newRnd(nil)
			}
			return mh(e, fn, append([]Value{e.globalRnd}, a...))
		}
	}
	h["math/rand.Seed"] = noop
	// ---- sort: insertion sort forking on the comparisons (contract: sorted permutation) ----
	h["sort.Strings"] = func(e *Exec, fn *ssa.Function, a []Value) Value {
		s := a[0].(Slice)
		for i := 1; i < s.len; i++ {
			for j := i; j > 0; j-- {
				x := s.arr.elems[s.off+j-1]
				y := s.arr.elems[s.off+j]
				if e.decide(e.strLt(y.v.(Str), x.v.(Str))) {
					x.v, y.v = y.v, x.v
				} else {
					break
				}
			}
		}
		return nil
	}
	h["slices.Sort[[]string string]"] = h["sort.Strings"]
	sortIface := func(e *Exec, fn *ssa.Function, a []Value) Value {
		d := a[0].(Iface)
		m := func(name string) *ssa.Function {
			f := e.prog.LookupMethod(d.t, nil, name)
			if f == nil {
				panic(unsupported("sort.Sort: no method " + name))
			}
			return f
		}
		n := int(e.concretize(e.call(m("Len"), []Value{d.v}, nil).(*Term), 0, 32, "sort length"))
		less, swap := m("Less"), m("Swap")
		for i := 1; i < n; i++ {
			for j := i; j > 0; j-- {
				if e.decide(e.call(less, []Value{d.v, K(int64(j)), K(int64(j - 1))}, nil).(*Term)) {
					e.call(swap, []Value{d.v, K(int64(j)), K(int64(j - 1))}, nil)
				} else {
					break
				}
			}
		}
		return nil
	}
	h["sort.Sort"] = sortIface
	h["sort.Stable"] = sortIface
	sortSlice := func(e *Exec, fn *ssa.Function, a []Value) Value {
		s, ok := a[0].(Iface).v.(Slice)
		if !ok {
			panic(unsupported("sort.Slice on non-slice"))
		}
		less := a[1].(*Closure)
		for i := 1; i < s.len; i++ {
			for j := i; j > 0; j-- {
				if e.decide(e.call(less.fn, []Value{K(int64(j)), K(int64(j - 1))}, less.free).(*Term)) {
					x, y := s.arr.elems[s.off+j-1], s.arr.elems[s.off+j]
					x.v, y.v = y.v, x.v
				} else {
					break
				}
			}
		}
		return nil
	}
	h["sort.Slice"] = sortSlice
	h["sort.SliceStable"] = sortSlice
	// ---- strings on concrete or bytes strings ----
	h["strings.Join"] = func(e *Exec, fn *ssa.Function, a []Value) Value {
		sl := a[0].(Slice)
		sep := a[1].(Str)
		allConc := sep.isConc()
		anyAtom := sep.atom != nil
		for i := 0; i < sl.len; i++ {
			s := sl.arr.elems[sl.off+i].v.(Str)
			if !s.isConc() {
				allConc = false
			}
			if s.atom != nil {
				anyAtom = true
			}
		}
		if sl.len == 1 {
			return sl.arr.elems[sl.off].v
		}
		if sl.len == 0 {
			return Str{}
		}
		if allConc {
			parts := make([]string, sl.len)
			for i := range parts {
				parts[i] = sl.arr.elems[sl.off+i].v.(Str).conc
			}
			return Str{conc: strings.Join(parts, sep.conc)}
		}
		if anyAtom {
			// text built from arbitrary names: opaque as long as it is only text (messages, logs);
			// comparing or ordering it needs the names' content (see builtCheck)
			r := opaqueStr(e, "join")
			r.built = true
			return r
		}
		var bs []*Term
		for i := 0; i < sl.len; i++ {
			if i > 0 {
				bs = append(bs, e.toBytes(sep)...)
			}
			bs = append(bs, e.toBytes(sl.arr.elems[sl.off+i].v.(Str))...)
		}
		return strFromBytes(bs)
	}
	concStr := func(name string, f func(a []string) Value) {
		h[name] = func(e *Exec, fn *ssa.Function, a []Value) Value {
			ss := make([]string, 0, len(a))
			for _, v := range a {
				if s, ok := v.(Str); ok {
					if s.atom != nil {
						panic(unsupported(name + " on atom string"))
					}
					if !s.isConc() {
						if fn.Blocks != nil {
							return e.callReal(fn, a) // plain Go on top of the modelled internal/bytealg
						}
						panic(unsupported(name + " on symbolic string"))
					}
					ss = append(ss, s.conc)
				}
			}
			return f(ss)
		}
	}
	concStr("strings.ToLower", func(a []string) Value { return Str{conc: strings.ToLower(a[0])} })
	concStr("strings.ToUpper", func(a []string) Value { return Str{conc: strings.ToUpper(a[0])} })
	concStr("strings.TrimSpace", func(a []string) Value { return Str{conc: strings.TrimSpace(a[0])} })
	// HasPrefix/HasSuffix: exact byte-wise formula on bytes strings (concrete lengths)
	affix := func(name string, suffix bool) {
		h[name] = func(e *Exec, fn *ssa.Function, a []Value) Value {
			x, y := a[0].(Str), a[1].(Str)
			if x.isConc() && y.isConc() {
				if suffix {
					return B(strings.HasSuffix(x.conc, y.conc))
				}
				return B(strings.HasPrefix(x.conc, y.conc))
			}
			if x.atom != nil || y.atom != nil {
				panic(unsupported(name + " on atom string"))
			}
			xb, yb := e.toBytes(x), e.toBytes(y)
			if len(yb) > len(xb) {
				return tFalse
			}
			off := 0
			if suffix {
				off = len(xb) - len(yb)
			}
			r := tTrue
			for i := range yb {
				r = And(r, Eq(xb[off+i], yb[i]))
			}
			return r
		}
	}
	affix("strings.HasPrefix", false)
	affix("strings.HasSuffix", true)
	h["strings.Contains"] = func(e *Exec, fn *ssa.Function, a []Value) Value {
		x, y := a[0].(Str), a[1].(Str)
		if x.isConc() && y.isConc() {
			return B(strings.Contains(x.conc, y.conc))
		}
		if f := e.prog.ImportedPackage(zzPkg); f != nil && f.Func("StringsContains") != nil && x.atom == nil && y.atom == nil {
			return e.call(f.Func("StringsContains"), a, nil)
		}
		panic(unsupported("strings.Contains on atom string"))
	}
	concStr("strings.Index", func(a []string) Value { return K(int64(strings.Index(a[0], a[1]))) })
	strSlice := func(e *Exec, parts []string) Value {
		sl := e.newSlice(types.Typ[types.String], len(parts), len(parts))
		for i, p := range parts {
			sl.arr.elems[i].v = Str{conc: p}
		}
		return sl
	}
	h["strings.Split"] = func(e *Exec, fn *ssa.Function, a []Value) Value {
		x, y := a[0].(Str), a[1].(Str)
		if !x.isConc() || !y.isConc() {
			if f := e.prog.ImportedPackage(zzPkg); f != nil && f.Func("StringsSplit") != nil && x.atom == nil && y.atom == nil {
				return e.call(f.Func("StringsSplit"), a, nil)
			}
			panic(unsupported("strings.Split on symbolic string"))
		}
		return strSlice(e, strings.Split(x.conc, y.conc))
	}
	h["strings.SplitN"] = func(e *Exec, fn *ssa.Function, a []Value) Value {
		x, y := a[0].(Str), a[1].(Str)
		n, ok := a[2].(*Term).ConstInt64()
		if !x.isConc() || !y.isConc() || !ok {
			panic(unsupported("strings.SplitN on symbolic string"))
		}
		return strSlice(e, strings.SplitN(x.conc, y.conc, int(n)))
	}
	h["strings.Fields"] = func(e *Exec, fn *ssa.Function, a []Value) Value {
		x := a[0].(Str)
		if !x.isConc() {
			panic(unsupported("strings.Fields on symbolic string"))
		}
		return strSlice(e, strings.Fields(x.conc))
	}
	h["strings.Replace"] = func(e *Exec, fn *ssa.Function, a []Value) Value {
		x, o, n := a[0].(Str), a[1].(Str), a[2].(Str)
		k, ok := a[3].(*Term).ConstInt64()
		if !x.isConc() || !o.isConc() || !n.isConc() || !ok {
			if f := e.prog.ImportedPackage(zzPkg); f != nil && f.Func("StringsReplace") != nil && x.atom == nil {
				return e.call(f.Func("StringsReplace"), a, nil)
			}
			panic(unsupported("strings.Replace on symbolic string"))
		}
		return Str{conc: strings.Replace(x.conc, o.conc, n.conc, int(k))}
	}
	h["time.ParseDuration"] = func(e *Exec, fn *ssa.Function, a []Value) Value {
		x := a[0].(Str)
		if !x.isConc() {
			panic(unsupported("time.ParseDuration on symbolic string"))
		}
		d, err := parseDuration(x.conc)
		if err != nil {
			return Tuple{K(0), mkOpaqueErr("time.ParseDuration", nil)}
		}
		return Tuple{K(d), Iface{}}
	}
	concStr("strconv.Itoa", nil)
	h["strconv.Itoa"] = func(e *Exec, fn *ssa.Function, a []Value) Value {
		if v, ok := a[0].(*Term).ConstInt64(); ok {
			return Str{conc: strconv.Itoa(int(v))}
		}
		return opaqueStr(e, "itoa")
	}
	h["strconv.FormatInt"] = func(e *Exec, fn *ssa.Function, a []Value) Value {
		v, ok := a[0].(*Term).ConstInt64()
		b, ok2 := a[1].(*Term).ConstInt64()
		if ok && ok2 {
			return Str{conc: strconv.FormatInt(v, int(b))}
		}
		return opaqueStr(e, "itoa")
	}
	h["unicode/utf8.ValidString"] = func(e *Exec, fn *ssa.Function, a []Value) Value {
		s := a[0].(Str)
		if s.isConc() {
			return B(validUTF8(s.conc))
		}
		if s.isB {
			return tTrue // symbolic bytes are ASCII by construction
		}
		// uninterpreted predicate of the atom: a fresh boolean per atom
		if b, ok := e.utf8ok[s.atom]; ok {
			return b
		}
		b := e.freshVar("utf8ok", SBool)
		e.utf8ok[s.atom] = b
		e.inputs = append(e.inputs, inputRec{Kind: "utf8ok", Name: "utf8ok", t: b})
		return b
	}
	h["encoding/json.Marshal"] = func(e *Exec, fn *ssa.Function, a []Value) Value {
		// size accounting only: an opaque one-byte encoding
		sl := e.newSlice(types.Typ[types.Uint8], 1, 1)
		return Tuple{sl, Iface{}}
	}
	// ---- flag: definitions yield cells holding the default; parsing is a no-op ----
	for _, n := range []string{"String", "Bool", "Int", "Uint", "Duration", "Int64", "Uint64", "Float64"} {
		h["flag."+n] = func(e *Exec, fn *ssa.Function, a []Value) Value { return &Cell{v: a[1]} }
		h["flag."+n+"Var"] = func(e *Exec, fn *ssa.Function, a []Value) Value {
			if p, _ := a[0].(*Cell); p != nil {
				e.store(p, a[2])
			}
			return nil
		}
	}
	h["flag.Var"] = noop
	h["flag.Parse"] = noop
	h["flag.Set"] = noop
	h["unicode/utf8.DecodeRuneInString"] = func(e *Exec, fn *ssa.Function, a []Value) Value {
		x := a[0].(Str)
		if x.isConc() {
			r, n := utf8.DecodeRuneInString(x.conc)
			return Tuple{K(int64(r)), K(int64(n))}
		}
		if x.isB {
			if len(x.bytes) == 0 {
				return Tuple{K(utf8.RuneError), K(0)}
			}
			return Tuple{x.bytes[0], K(1)} // symbolic bytes are ASCII (stated bound)
		}
		panic(unsupported("utf8.DecodeRuneInString on atom string"))
	}
	h["unicode/utf8.RuneCountInString"] = func(e *Exec, fn *ssa.Function, a []Value) Value {
		x := a[0].(Str)
		if x.isConc() {
			return K(int64(utf8.RuneCountInString(x.conc)))
		}
		if x.isB {
			return K(int64(len(x.bytes)))
		}
		panic(unsupported("utf8.RuneCountInString on atom string"))
	}
	h["unicode/utf8.RuneLen"] = func(e *Exec, fn *ssa.Function, a []Value) Value {
		if v, ok := a[0].(*Term).ConstInt64(); ok {
			return K(int64(utf8.RuneLen(rune(v))))
		}
		return K(1)
	}
	h["strings.Trim"] = func(e *Exec, fn *ssa.Function, a []Value) Value {
		x, c := a[0].(Str), a[1].(Str)
		if x.isConc() && c.isConc() {
			return Str{conc: strings.Trim(x.conc, c.conc)}
		}
		if f := e.prog.ImportedPackage(zzPkg); f != nil && f.Func("StringsTrim") != nil && x.atom == nil && c.atom == nil {
			return e.call(f.Func("StringsTrim"), a, nil)
		}
		panic(unsupported("strings.Trim on symbolic string"))
	}
	h["math.Pow"] = func(e *Exec, fn *ssa.Function, a []Value) Value {
		x, y := a[0].(*Term), a[1].(*Term)
		if x.IsConst() && y.IsConst() {
			return KF(math.Pow(x.F, y.F), SF64)
		}
		// small integer exponents of a constant base are computed exactly (case split)
		if x.IsConst() && (y.Op == OU2F || y.Op == OI2F) {
			p := y.Args[0]
			for k := int64(0); k <= 4; k++ {
				if e.decide(Eq(p, K(k))) {
					return KF(math.Pow(x.F, float64(k)), SF64)
				}
			}
		}
		// uninterpreted: equal arguments give equal results; for a positive base the result is a
		// positive number (possibly +Inf or 0 by overflow/underflow), never NaN
		for _, p := range e.powMemo {
			if e.decide(And(FCmp(OFEq, p.x, x), FCmp(OFEq, p.y, y))) {
				return p.r
			}
		}
		r := e.freshVar("pow", SF64)
		e.assertPC(Or(Not(FCmp(OFLt, KF(0, SF64), x)), And(FCmp(OFLe, KF(0, SF64), r), Not(FIsNaN(r)))))
		e.powMemo = append(e.powMemo, powRec{x, y, r})
		e.sh.addNote("abstraction: math.Pow with symbolic arguments is an uninterpreted function")
		return r
	}
	h["regexp.MustCompile"] = func(e *Exec, fn *ssa.Function, a []Value) Value { return (*Cell)(nil) }
	h["reflect.ValueOf"] = func(e *Exec, fn *ssa.Function, a []Value) Value {
		so := e.zero(resultType(fn, 0)).(*StructObj)
		so.fields[1].v = &Cell{v: a[0]}
		return so
	}
	h["(reflect.Value).Type"] = func(e *Exec, fn *ssa.Function, a []Value) Value {
		c, _ := a[0].(*StructObj).fields[1].v.(*Cell)
		if c == nil {
			e.goPanic("reflect: call of reflect.Value.Type on zero Value")
		}
		i := c.v.(Iface)
		if i.t == nil {
			e.goPanic("reflect: call of reflect.Value.Type on zero Value")
		}
		return Iface{t: reflectTypeType, v: &reflType{i.t}}
	}
	h["reflect.TypeOf"] = func(e *Exec, fn *ssa.Function, a []Value) Value {
		i := a[0].(Iface)
		if i.t == nil {
			return Iface{}
		}
		return Iface{t: reflectTypeType, v: &reflType{i.t}}
	}
	// backoff
	// backoff (cenkalti/backoff v4): the constructor sets the library's documented defaults and
	// applies its options; NextBackOff returns a fresh delay - or Stop (-1) once MaxElapsedTime
	// (when non-zero) has elapsed since the last Reset, which is the environment's choice.
	h["(*github.com/cenkalti/backoff/v4.ExponentialBackOff).NextBackOff"] = func(e *Exec, fn *ssa.Function, a []Value) Value {
		if c, ok := a[0].(*Cell); ok && c != nil {
			if so, ok := c.v.(*StructObj); ok {
				if f := structField(so, "MaxElapsedTime"); f != nil {
					if m, ok := f.v.(*Term); ok && !e.decide(Eq(m, K(0))) {
						if e.chooseN(2, nil) == 1 {
							return K(-1) // backoff.Stop
						}
					}
				}
			}
		}
		t := e.freshVar("backoff", SInt)
		e.assertPC(Le(K(0), t))
		e.assertPC(Lt(t, KBig(pow2[40])))
		return t
	}
	h["(*github.com/cenkalti/backoff/v4.ExponentialBackOff).Reset"] = noop
	h["github.com/cenkalti/backoff/v4.NewExponentialBackOff"] = func(e *Exec, fn *ssa.Function, a []Value) Value {
		pt := resultType(fn, 0).(*types.Pointer)
		so := e.zero(pt.Elem()).(*StructObj)
		for name, v := range map[string]int64{"InitialInterval": 500000000, "MaxInterval": 60000000000, "MaxElapsedTime": 900000000000} {
			if f := structField(so, name); f != nil {
				f.v = K(v)
			}
		}
		for name, v := range map[string]float64{"RandomizationFactor": 0.5, "Multiplier": 1.5} {
			if f := structField(so, name); f != nil {
				f.v = KF(v, SF64)
			}
		}
		c := &Cell{v: so}
		if len(a) == 1 {
			if opts, ok := a[0].(Slice); ok {
				for i := 0; i < opts.len; i++ {
					if cl, ok := opts.arr.elems[opts.off+i].v.(*Closure); ok && cl != nil {
						e.call(cl.fn, []Value{c}, cl.free)
					}
				}
			}
		}
		return c
	}
	h["(*google.golang.org/grpc.ClientConn).Close"] = func(e *Exec, fn *ssa.Function, a []Value) Value {
		if f := e.harnessFunc("vConnClose"); f != nil {
			return e.call(f, a, nil)
		}
		return Iface{}
	}
	buildHandlers2(h)
	return h
}

var rndSourceType = types.NewNamed(types.NewTypeName(0, nil, "rndSource", nil), types.NewStruct(nil, nil), nil)
var reflectTypeType = types.NewNamed(types.NewTypeName(0, nil, "reflType", nil), types.NewStruct(nil, nil), nil)

type reflType struct{ t types.Type }

func (e *Exec) harnessFunc(name string) *ssa.Function {
	if e.entryPkg == nil {
		return nil
	}
	return e.entryPkg.Func(name)
}

func (e *Exec) atomicVC(c *Cell) *VC {
	if e.atomVCs == nil {
		e.atomVCs = map[*Cell]*VC{}
	}
	v := e.atomVCs[c]
	if v == nil {
		v = &VC{}
		e.atomVCs[c] = v
	}
	return v
}

func validUTF8(s string) bool {
	for _, r := range s {
		if r == 0xFFFD {
			// may be a genuine U+FFFD; check bytes
			return strings.ToValidUTF8(s, "") == s
		}
	}
	return true
}

func durString(v int64) string {
	// time.Duration(v).String() without importing time semantics differences
	return fmt.Sprint(timeDuration(v))
}

// ---- protobuf structural intrinsics (DESIGN §3.5) ----

func skipField(f *types.Var) bool {
	switch f.Name() {
	case "state", "sizeCache", "unknownFields":
		return true
	}
	return false
}

// deepEq: structural equality of protobuf message graphs (wire fields only):
// nil and empty repeated fields equal, nil vs empty message differ.
func (e *Exec) deepEq(a, b Value) *Term {
	switch x := a.(type) {
	case Iface:
		y := b.(Iface)
		if x.t == nil || y.t == nil {
			return B(x.t == nil && y.t == nil)
		}
		if !types.Identical(x.t, y.t) {
			return tFalse
		}
		return e.deepEq(x.v, y.v)
	case *Cell:
		y := b.(*Cell)
		if x == nil || y == nil {
			return B(x == nil && y == nil)
		}
		if x == y {
			return tTrue
		}
		return e.deepEq(x.v, y.v)
	case *StructObj:
		y := b.(*StructObj)
		st := x.typ.Underlying().(*types.Struct)
		r := tTrue
		for i := range x.fields {
			if skipField(st.Field(i)) {
				continue
			}
			r = And(r, e.deepEq(x.fields[i].v, y.fields[i].v))
			if r.IsFalse() {
				return r
			}
		}
		return r
	case Slice:
		y := b.(Slice)
		if x.len != y.len {
			return tFalse
		}
		r := tTrue
		for i := 0; i < x.len; i++ {
			r = And(r, e.deepEq(x.arr.elems[x.off+i].v, y.arr.elems[y.off+i].v))
			if r.IsFalse() {
				return r
			}
		}
		return r
	case *Map:
		y := b.(*Map)
		nx, ny := 0, 0
		if x != nil {
			nx = len(x.ents)
		}
		if y != nil {
			ny = len(y.ents)
		}
		if nx != ny {
			// keys are pairwise distinct within a map, so different sizes differ
			return tFalse
		}
		if nx == 0 {
			return tTrue
		}
		// every entry of x has an equal entry in y (sizes equal + distinct keys => bijection)
		r := tTrue
		for _, ex := range x.ents {
			any := tFalse
			for _, ey := range y.ents {
				any = Or(any, And(e.eqVal(ex.k, ey.k), e.deepEq(ex.v, ey.v)))
			}
			r = And(r, any)
		}
		return r
	case *Term:
		y := b.(*Term)
		if x.Sort == SF32 || x.Sort == SF64 {
			// proto.Equal treats NaN as equal to NaN
			return Or(FCmp(OFEq, x, y), And(FIsNaN(x), FIsNaN(y)))
		}
		return Eq(x, y)
	}
	return e.eqVal(a, b)
}

func (e *Exec) deepCopy(v Value) Value {
	switch x := v.(type) {
	case Iface:
		if x.t == nil {
			return x
		}
		return Iface{t: x.t, v: e.deepCopy(x.v)}
	case *Cell:
		if x == nil {
			return x
		}
		return &Cell{v: e.deepCopy(x.v)}
	case *StructObj:
		n := &StructObj{typ: x.typ, fields: make([]*Cell, len(x.fields))}
		st, _ := x.typ.Underlying().(*types.Struct)
		for i, f := range x.fields {
			if st != nil && skipField(st.Field(i)) {
				n.fields[i] = &Cell{v: e.zero(st.Field(i).Type())}
				continue
			}
			n.fields[i] = &Cell{v: e.deepCopy(f.v)}
		}
		return n
	case *Array:
		n := &Array{elems: make([]*Cell, len(x.elems))}
		for i, f := range x.elems {
			n.elems[i] = &Cell{v: e.deepCopy(f.v)}
		}
		return n
	case Slice:
		if x.arr == nil {
			return x
		}
		arr := &Array{elems: make([]*Cell, x.len)}
		for i := 0; i < x.len; i++ {
			arr.elems[i] = &Cell{v: e.deepCopy(x.arr.elems[x.off+i].v)}
		}
		return Slice{arr: arr, len: x.len, cap: x.len}
	case *Map:
		if x == nil {
			return x
		}
		n := &Map{}
		for _, en := range x.ents {
			n.ents = append(n.ents, &entry{k: en.k, v: e.deepCopy(en.v)})
		}
		return n
	}
	return v
}

var _ = sort.Strings

func (e *Exec) satT(t *Term) *Term {
	if !t.IsConst() && e.interval(t, 0).within(typeRange(64, true)) {
		return t
	}
	return Sat64(t)
}

// unitMul abstracts u*o, u a random draw in [0,1), by a fresh float between 0 and o
// (sound over-approximation by monotonicity of rounding; the installed solvers do not
// decide symbolic 53-bit multiplications within the query cap — DESIGN §3.3).
func (e *Exec) unitMul(x, y *Term) *Term {
	var o *Term
	switch {
	case e.unitFloats[x] && !y.IsConst():
		o = y
	case e.unitFloats[y] && !x.IsConst():
		o = x
	default:
		return nil
	}
	p := e.freshVar("unitmul", o.Sort)
	zero := KF(0, o.Sort)
	pos := And(FCmp(OFLe, zero, o), And(FCmp(OFLe, zero, p), FCmp(OFLe, p, o)))
	neg := And(FCmp(OFLe, o, zero), And(FCmp(OFLe, o, p), FCmp(OFLe, p, zero)))
	e.assertPC(Or(Or(pos, neg), FIsNaN(o)))
	e.sh.addNote("abstraction: random-draw * float replaced by an interval-constrained float")
	return p
}

// nowTime: a fresh clock reading; the wall clock as read by one process is non-decreasing in this model.
func (e *Exec) nowTime(t types.Type) Value {
	v := e.freshVar("now", SInt)
	e.inputs = append(e.inputs, inputRec{Kind: "clock", Name: "now", t: v})
	if e.lastNow != nil {
		e.assertPC(Le(e.lastNow, v))
	}
	e.assertPC(Le(K(0), v))
	e.assertPC(Lt(v, KBig(pow2[62])))
	e.lastNow = v
	return e.mkTime(t, v)
}

type powRec struct{ x, y, r *Term }
