package main

// Additional library models: constructs a realistic change to the code base may introduce
// (atomic.Value, sync.Pool, strings.Builder, more of package strings, errors.Is/As/Unwrap,
// time.Ticker). Without them such a change would end a run as "unsupported" (inconclusive).

import (
	"go/types"
	"strings"
	"unicode/utf8"

	"golang.org/x/tools/go/ssa"
)

type condWaiter struct {
	woken bool
	vc    VC
}

type condState struct{ waiters []*condWaiter }

func structField(so *StructObj, name string) *Cell {
	st, ok := so.typ.Underlying().(*types.Struct)
	if !ok {
		return nil
	}
	for i := 0; i < st.NumFields(); i++ {
		if st.Field(i).Name() == name {
			return so.fields[i]
		}
	}
	return nil
}

func buildHandlers2(h map[string]handler) {
	// ---- atomic.Value: the struct's single field holds the interface value itself ----
	valueOp := func(f func(e *Exec, c *Cell, a []Value) Value) handler {
		return func(e *Exec, fn *ssa.Function, a []Value) Value {
			p, _ := a[0].(*Cell)
			if p == nil {
				e.goPanic("nil pointer dereference (atomic.Value)")
			}
			c := structField(p.v.(*StructObj), "v")
			e.yield(func() bool { return true }, c)
			av := e.atomicVC(c)
			e.acquire(*av)
			if _, ok := c.v.(Iface); !ok {
				c.v = Iface{}
			}
			r := f(e, c, a)
			e.release(av)
			return r
		}
	}
	h["(*sync/atomic.Value).Load"] = valueOp(func(e *Exec, c *Cell, a []Value) Value { return c.v })
	h["(*sync/atomic.Value).Store"] = valueOp(func(e *Exec, c *Cell, a []Value) Value {
		if isNilValue(a[1]) {
			e.goPanic("panic: sync/atomic: store of nil value into Value")
		}
		c.v = a[1]
		return nil
	})
	h["(*sync/atomic.Value).Swap"] = valueOp(func(e *Exec, c *Cell, a []Value) Value { o := c.v; c.v = a[1]; return o })
	h["(*sync/atomic.Value).CompareAndSwap"] = valueOp(func(e *Exec, c *Cell, a []Value) Value {
		if e.decide(e.eqVal(c.v, a[1])) {
			c.v = a[2]
			return tTrue
		}
		return tFalse
	})
	// ---- sync.Pool: Get returns an item put earlier or a new one (the pool may drop items at any time) ----
	h["(*sync.Pool).Get"] = func(e *Exec, fn *ssa.Function, a []Value) Value {
		p := a[0].(*Cell)
		if items := e.pools[p]; len(items) > 0 && e.chooseN(2, nil) == 1 {
			it := items[len(items)-1]
			e.pools[p] = items[:len(items)-1]
			return it
		}
		if nf, _ := structField(p.v.(*StructObj), "New").v.(*Closure); nf != nil {
			return e.call(nf.fn, nil, nf.free)
		}
		return Iface{}
	}
	h["(*sync.Pool).Put"] = func(e *Exec, fn *ssa.Function, a []Value) Value {
		p := a[0].(*Cell)
		if isNilValue(a[1]) {
			return nil
		}
		if e.pools == nil {
			e.pools = map[*Cell][]Value{}
		}
		e.pools[p] = append(e.pools[p], a[1])
		return nil
	}
	// ---- strings.Builder: the real methods append to buf; only the unsafe parts are replaced ----
	h["(*strings.Builder).copyCheck"] = noop
	h["(*strings.Builder).String"] = func(e *Exec, fn *ssa.Function, a []Value) Value {
		buf, _ := structField(a[0].(*Cell).v.(*StructObj), "buf").v.(Slice)
		bs := make([]*Term, buf.len)
		for i := range bs {
			bs[i] = buf.arr.elems[buf.off+i].v.(*Term)
		}
		if len(bs) == 0 {
			return Str{}
		}
		return strFromBytes(bs)
	}
	// ---- more of package strings ----
	conc := func(name string, f func(a []string, ints []int64) Value) {
		h[name] = func(e *Exec, fn *ssa.Function, a []Value) Value {
			var ss []string
			var is []int64
			for _, v := range a {
				switch x := v.(type) {
				case Str:
					if x.atom != nil {
						panic(unsupported(name + " on atom string"))
					}
					if !x.isConc() {
						// symbolic bytes: the library function's own body runs (package strings is
						// plain Go on top of internal/bytealg, which is modelled)
						if fn.Blocks != nil {
							return e.callReal(fn, a)
						}
						panic(unsupported(name + " on symbolic string"))
					}
					ss = append(ss, x.conc)
				case *Term:
					k, ok := x.ConstInt64()
					if !ok {
						if fn.Blocks != nil {
							return e.callReal(fn, a)
						}
						panic(unsupported(name + " with symbolic integer"))
					}
					is = append(is, k)
				}
			}
			return f(ss, is)
		}
	}
	conc("strings.Count", func(a []string, _ []int64) Value { return K(int64(strings.Count(a[0], a[1]))) })
	conc("strings.LastIndex", func(a []string, _ []int64) Value { return K(int64(strings.LastIndex(a[0], a[1]))) })
	conc("strings.IndexByte", func(a []string, i []int64) Value { return K(int64(strings.IndexByte(a[0], byte(i[0])))) })
	conc("strings.LastIndexByte", func(a []string, i []int64) Value { return K(int64(strings.LastIndexByte(a[0], byte(i[0])))) })
	conc("strings.IndexRune", func(a []string, i []int64) Value { return K(int64(strings.IndexRune(a[0], rune(i[0])))) })
	conc("strings.IndexAny", func(a []string, _ []int64) Value { return K(int64(strings.IndexAny(a[0], a[1]))) })
	conc("strings.ContainsRune", func(a []string, i []int64) Value { return B(strings.ContainsRune(a[0], rune(i[0]))) })
	conc("strings.ContainsAny", func(a []string, _ []int64) Value { return B(strings.ContainsAny(a[0], a[1])) })
	conc("strings.EqualFold", func(a []string, _ []int64) Value { return B(strings.EqualFold(a[0], a[1])) })
	conc("strings.Repeat", func(a []string, i []int64) Value { return Str{conc: strings.Repeat(a[0], int(i[0]))} })
	conc("strings.TrimLeft", func(a []string, _ []int64) Value { return Str{conc: strings.TrimLeft(a[0], a[1])} })
	conc("strings.TrimRight", func(a []string, _ []int64) Value { return Str{conc: strings.TrimRight(a[0], a[1])} })
	conc("strings.Compare", func(a []string, _ []int64) Value { return K(int64(strings.Compare(a[0], a[1]))) })
	conc("unicode/utf8.RuneCountInString", func(a []string, _ []int64) Value { return K(int64(utf8.RuneCountInString(a[0]))) })
	trimAffix := func(name string, suffix bool) {
		h[name] = func(e *Exec, fn *ssa.Function, a []Value) Value {
			x, y := a[0].(Str), a[1].(Str)
			if x.isConc() && y.isConc() {
				if suffix {
					return Str{conc: strings.TrimSuffix(x.conc, y.conc)}
				}
				return Str{conc: strings.TrimPrefix(x.conc, y.conc)}
			}
			if x.atom != nil || y.atom != nil {
				panic(unsupported(name + " on atom string"))
			}
			hn := "strings.HasPrefix"
			if suffix {
				hn = "strings.HasSuffix"
			}
			if !e.decide(h[hn](e, fn, a).(*Term)) {
				return x
			}
			xb, n := e.toBytes(x), len(e.toBytes(y))
			if suffix {
				xb = xb[:len(xb)-n]
			} else {
				xb = xb[n:]
			}
			if len(xb) == 0 {
				return Str{}
			}
			return strFromBytes(xb)
		}
	}
	trimAffix("strings.TrimPrefix", false)
	trimAffix("strings.TrimSuffix", true)
	// ---- errors.Is / Unwrap: Go-written models; errors.As here (needs the target's type) ----
	viaModel := func(model string) handler {
		return func(e *Exec, fn *ssa.Function, a []Value) Value {
			p := e.prog.ImportedPackage(zzPkg)
			if p == nil || p.Func(model) == nil {
				panic(unsupported("runtime model missing: " + model))
			}
			return e.call(p.Func(model), a, nil)
		}
	}
	h["errors.Is"] = viaModel("ErrorsIs")
	h["errors.Unwrap"] = viaModel("ErrorsUnwrap")
	h["errors.As"] = func(e *Exec, fn *ssa.Function, a []Value) Value {
		tgt, _ := a[1].(Iface)
		pt, ok := tgt.t.(*types.Pointer)
		cell, _ := tgt.v.(*Cell)
		if !ok || cell == nil {
			e.goPanic("panic: errors: target must be a non-nil pointer")
		}
		want := pt.Elem()
		cur, _ := a[0].(Iface)
		for steps := 0; cur.t != nil && steps < 8; steps++ {
			if cur.t != opaqueErrType {
				if _, isI := want.Underlying().(*types.Interface); isI {
					if types.AssignableTo(cur.t, want) {
						cell.v = cur
						return tTrue
					}
				} else if types.Identical(cur.t, want) {
					cell.v = cur.v
					return tTrue
				}
			}
			if cur.t == opaqueErrType {
				return tFalse
			}
			var uw *ssa.Function
			if sel := e.prog.MethodSets.MethodSet(cur.t).Lookup(nil, "Unwrap"); sel != nil {
				uw = e.prog.MethodValue(sel)
			}
			if uw == nil || uw.Signature.Results().Len() != 1 {
				return tFalse
			}
			if _, isErr := uw.Signature.Results().At(0).Type().Underlying().(*types.Interface); !isErr {
				return tFalse // Unwrap() []error: not modelled, treated as no match
			}
			next, _ := e.call(uw, []Value{cur.v}, nil).(Iface)
			cur = next
		}
		return tFalse
	}
	// ---- sync.Cond: waiters are woken by Signal (the oldest) / Broadcast (all); no spurious wake-ups ----
	lockerCall := func(e *Exec, c *Cell, method string) {
		L, _ := structField(c.v.(*StructObj), "L").v.(Iface)
		if L.t == nil {
			e.goPanic("nil pointer dereference (sync.Cond without Locker)")
		}
		f := e.prog.LookupMethod(L.t, nil, method)
		if f == nil {
			panic(unsupported("sync.Cond: Locker without " + method))
		}
		e.call(f, []Value{L.v}, nil)
	}
	h["(*sync.Cond).Wait"] = func(e *Exec, fn *ssa.Function, a []Value) Value {
		c := a[0].(*Cell)
		if e.conds == nil {
			e.conds = map[*Cell]*condState{}
		}
		cs := e.conds[c]
		if cs == nil {
			cs = &condState{}
			e.conds[c] = cs
		}
		w := &condWaiter{}
		cs.waiters = append(cs.waiters, w)
		lockerCall(e, c, "Unlock")
		e.yield(func() bool { return w.woken }, c)
		e.acquire(w.vc)
		lockerCall(e, c, "Lock")
		return nil
	}
	wake := func(all bool) handler {
		return func(e *Exec, fn *ssa.Function, a []Value) Value {
			c := a[0].(*Cell)
			e.yield(func() bool { return true }, c)
			if cs := e.conds[c]; cs != nil {
				for len(cs.waiters) > 0 {
					w := cs.waiters[0]
					cs.waiters = cs.waiters[1:]
					w.woken = true
					e.release(&w.vc)
					if !all {
						break
					}
				}
			}
			return nil
		}
	}
	h["(*sync.Cond).Signal"] = wake(false)
	h["(*sync.Cond).Broadcast"] = wake(true)
	// ---- more of package time (exact, on the nanosecond scalar) ----
	h["time.UnixMilli"] = func(e *Exec, fn *ssa.Function, a []Value) Value {
		return e.mkTime(resultType(fn, 0), RawMul(a[0].(*Term), K(1000000)))
	}
	h["time.UnixMicro"] = func(e *Exec, fn *ssa.Function, a []Value) Value {
		return e.mkTime(resultType(fn, 0), RawMul(a[0].(*Term), K(1000)))
	}
	h["(time.Time).UnixMilli"] = func(e *Exec, fn *ssa.Function, a []Value) Value {
		return e.wrapT(floorDiv(e.timeNS(a[0]), K(1000000)), 64, true, false)
	}
	h["(time.Time).UnixMicro"] = func(e *Exec, fn *ssa.Function, a []Value) Value {
		return e.wrapT(floorDiv(e.timeNS(a[0]), K(1000)), 64, true, false)
	}
	h["(time.Time).Compare"] = func(e *Exec, fn *ssa.Function, a []Value) Value {
		x, y := e.timeNS(a[0]), e.timeNS(a[1])
		return Ite(Lt(x, y), K(-1), Ite(Lt(y, x), K(1), K(0)))
	}
	h["time.Until"] = func(e *Exec, fn *ssa.Function, a []Value) Value {
		now := e.nowTime(a[0].(*StructObj).typ)
		return e.satT(RawSub(e.timeNS(a[0]), e.timeNS(now)))
	}
	h["(time.Time).Truncate"] = func(e *Exec, fn *ssa.Function, a []Value) Value {
		d, ok := a[1].(*Term).ConstInt64()
		// Truncate rounds relative to the zero time, which is a whole number of days before the
		// Unix epoch: for a d dividing one day that equals rounding the Unix nanoseconds down
		if !ok || d <= 0 || 86400000000000%d != 0 {
			if ok && d <= 0 {
				return a[0]
			}
			panic(unsupported("time.Truncate with a duration that does not divide a day"))
		}
		ns := e.timeNS(a[0])
		return e.mkTime(a[0].(*StructObj).typ, RawMul(floorDiv(ns, K(d)), K(d)))
	}
	// ---- time.Ticker: a timer that stays armed; each tick is an environment event ----
	h["time.NewTicker"] = func(e *Exec, fn *ssa.Function, a []Value) Value {
		pt := resultType(fn, 0).(*types.Pointer)
		so := e.zero(pt.Elem()).(*StructObj)
		elem := so.typ.Underlying().(*types.Struct).Field(0).Type().Underlying().(*types.Chan).Elem()
		t := e.newTimer(elem, nil)
		t.periodic = true
		so.fields[0].v = t.ch
		c := &Cell{v: so}
		e.timerOf[c] = t
		return c
	}
	h["time.Tick"] = func(e *Exec, fn *ssa.Function, a []Value) Value {
		elem := resultType(fn, 0).Underlying().(*types.Chan).Elem()
		t := e.newTimer(elem, nil)
		t.periodic = true
		return t.ch
	}
	h["(*time.Ticker).Stop"] = func(e *Exec, fn *ssa.Function, a []Value) Value {
		if t := e.timerOf[a[0].(*Cell)]; t != nil {
			e.yield(func() bool { return true }, t)
			t.armed = false
		}
		return nil
	}
	h["(*time.Ticker).Reset"] = func(e *Exec, fn *ssa.Function, a []Value) Value {
		if t := e.timerOf[a[0].(*Cell)]; t != nil {
			e.yield(func() bool { return true }, t)
			t.armed = true
		}
		return nil
	}
}
