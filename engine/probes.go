package main

import (
	"golang.org/x/tools/go/ssa"
)

// Probes (DESIGN §3.8): harness callbacks run at entry/exit of named real functions.
type probeRec struct {
	entry bool
	f     *Closure
}

func (e *Exec) probe(fn *ssa.Function, entry bool, args []Value) {
	if len(e.probes) == 0 {
		return
	}
	ps := e.probes[shortFn(fn.String())]
	if len(ps) == 0 || e.inProbe {
		return
	}
	e.inProbe = true
	for _, p := range ps {
		if p.entry == entry {
			e.call(p.f.fn, nil, p.f.free)
		}
	}
	e.inProbe = false
}

func buildProbeHandlers(h map[string]handler) {
	H := "(*" + zzPkg + ".H)."
	reg := func(entry bool) handler {
		return func(e *Exec, fn *ssa.Function, a []Value) Value {
			name := concStrArg(a[1])
			if e.probes == nil {
				e.probes = map[string][]probeRec{}
			}
			e.probes[name] = append(e.probes[name], probeRec{entry: entry, f: a[2].(*Closure)})
			e.sh.probeNames.Store(name, true)
			return nil
		}
	}
	h[H+"OnEntry"] = reg(true)
	h[H+"OnExit"] = reg(false)
}
