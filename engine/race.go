package main

// FastTrack-style happens-before race detection on heap cells (DESIGN §3.6).

import (
	"fmt"
	"runtime/debug"
	"strings"
)

type VC map[int]int

func (v VC) copy() VC {
	n := make(VC, len(v))
	for k, x := range v {
		n[k] = x
	}
	return n
}

func (v VC) join(o VC) {
	for k, x := range o {
		if x > v[k] {
			v[k] = x
		}
	}
}

type access struct {
	gid, clk int
	site     string
}

type cellMeta struct {
	w     *access
	reads []*access
}

func (e *Exec) gvc() VC {
	g := e.sch.cur
	if g.vc == nil {
		g.vc = VC{g.id: 1}
	}
	return g.vc
}

func (e *Exec) raceSite() (string, bool) {
	st := e.sch.cur.stack
	if len(st) == 0 {
		return "?", true
	}
	fn := st[len(st)-1]
	name := fn.String()
	// harness code (monitor variables) and the overlay runtime are exempt
	if strings.Contains(name, "zzverif") || strings.Contains(fn.Name(), "Verif") || strings.Contains(fn.Name(), "verif") {
		return name, true
	}
	if p := fn.Parent(); p != nil {
		for ; p != nil; p = p.Parent() {
			if strings.Contains(p.Name(), "Verif") || strings.Contains(p.Name(), "verif") {
				return name, true
			}
		}
	}
	return shortFn(name), false
}

func (e *Exec) onAccess(c *Cell, write bool) {
	if !e.cfg.Race || e.sch == nil || c == nil || len(e.sch.gs) < 2 {
		return
	}
	site, exempt := e.raceSite()
	if exempt {
		return
	}
	m := c.meta
	if m == nil {
		m = &cellMeta{}
		c.meta = m
	}
	g := e.sch.cur
	vc := e.gvc()
	hb := func(a *access) bool { return a == nil || a.gid == g.id || a.clk <= vc[a.gid] }
	if !hb(m.w) {
		kind := "read"
		if write {
			kind = "write"
		}
		other := m.w.site
		m.w = nil
		e.obligation(tTrue, "race", fmt.Sprintf("DATA RACE: %s at %s vs earlier write at %s", kind, site, other))
	}
	if write {
		for _, r := range m.reads {
			if !hb(r) {
				other := r.site
				m.reads = nil
				e.obligation(tTrue, "race", fmt.Sprintf("DATA RACE: write at %s vs earlier read at %s", site, other))
			}
		}
		m.w = &access{g.id, vc[g.id], site}
		m.reads = m.reads[:0]
	} else {
		for i, r := range m.reads {
			if r.gid == g.id {
				m.reads[i] = &access{g.id, vc[g.id], site}
				return
			}
		}
		m.reads = append(m.reads, &access{g.id, vc[g.id], site})
	}
}

func (e *Exec) release(obj *VC) {
	if e.sch == nil || !e.cfg.Race {
		return
	}
	vc := e.gvc()
	if *obj == nil {
		*obj = VC{}
	}
	(*obj).join(vc)
	vc[e.sch.cur.id]++
}

func (e *Exec) acquire(obj VC) {
	if e.sch == nil || !e.cfg.Race || obj == nil {
		return
	}
	e.gvc().join(obj)
}

func stackTrace() string {
	s := string(debug.Stack())
	if len(s) > 3000 {
		s = s[:3000]
	}
	return s
}
