package main

import (
	"encoding/json"
	"fmt"
	"os"
	"os/exec"
	"path/filepath"
	"regexp"
	"sort"
	"strconv"
	"strings"
	"time"
)

type replayCase struct {
	Entry  string                   `json:"entry"`
	Inputs []map[string]interface{} `json:"inputs"`
	Traces []string                 `json:"traces"`
	Params map[string]int           `json:"params"`
	Expect string                   `json:"expect"`
	Msg    string                   `json:"msg"`
	Kind   string                   `json:"kind"`
	Tries  int                      `json:"tries"`
	// not consumed by the native runtime
	Site     string   `json:"site,omitempty"`
	Stack    []string `json:"stack,omitempty"`
	Schedule []string `json:"schedule,omitempty"`
	Known    string   `json:"known,omitempty"`
	Trail    []int    `json:"trail,omitempty"`
}

type replayResult struct {
	Entry   string   `json:"entry"`
	Outcome string   `json:"outcome"`
	Detail  string   `json:"detail"`
	TraceOK bool     `json:"trace_ok"`
	Traces  []string `json:"traces"`
	Tries   int      `json:"tries"`
}

var verifFuncRe = regexp.MustCompile(`(?m)^func (Verif\w+)\(h \*\w+\.H\)`)

// nativeReplay runs the cases of one package natively against /repo's current tree.
func nativeReplay(pkg string, files []string, cases []*replayCase) ([]*replayResult, string, error) {
	tmp, err := os.MkdirTemp("", "gosym-replay-")
	if err != nil {
		return nil, "", err
	}
	if os.Getenv("VERIF_KEEP") == "" {
		defer os.RemoveAll(tmp)
	} else {
		fmt.Println("replay dir kept:", tmp)
	}
	ov := map[string]string{}
	rt, _ := filepath.Glob(filepath.Join(verifDir, "harness", "zzverif", "*.go"))
	for _, f := range rt {
		ov[filepath.Join(repoDir, "zzverif", filepath.Base(f))] = f
	}
	var names []string
	pkgName := ""
	for _, f := range files {
		src := filepath.Join(verifDir, "harness", f)
		ov[harnessTarget(pkg, f)] = src
		b, _ := os.ReadFile(src)
		for _, m := range verifFuncRe.FindAllStringSubmatch(string(b), -1) {
			names = append(names, m[1])
		}
		if m := regexp.MustCompile(`(?m)^package (\w+)`).FindStringSubmatch(string(b)); m != nil {
			pkgName = m[1]
		}
	}
	var sb strings.Builder
	sb.WriteString("package " + pkgName + "\n\nimport (\n\t\"testing\"\n\t\"github.com/openconfig/gnmi/zzverif\"\n)\n\n")
	sb.WriteString("func TestVerifReplay(t *testing.T) {\n\tfuncs := map[string]func(*zzverif.H){\n")
	for _, n := range names {
		sb.WriteString("\t\t\"" + n + "\": " + n + ",\n")
	}
	sb.WriteString("\t}\n\tif zzverif.RunCases(funcs) != 0 {\n\t\tt.Fatal(\"replay runner failed\")\n\t}\n}\n")
	testFile := filepath.Join(tmp, "replay_test.go")
	os.WriteFile(testFile, []byte(sb.String()), 0644)
	ov[filepath.Join(repoDir, pkg, "zz_verif_replay_test.go")] = testFile
	ovJSON, _ := json.Marshal(map[string]interface{}{"Replace": ov})
	ovFile := filepath.Join(tmp, "overlay.json")
	os.WriteFile(ovFile, ovJSON, 0644)
	caseFile := filepath.Join(tmp, "cases.json")
	cb, _ := json.Marshal(cases)
	os.WriteFile(caseFile, cb, 0644)
	cmd := exec.Command("timeout", "600", "go", "test", "-vet=off", "-count=1", "-overlay", ovFile, "-run", "^TestVerifReplay$", "./"+pkg)
	cmd.Dir = repoDir
	cmd.Env = append(os.Environ(), "GOFLAGS=-mod=mod", "GOPROXY=off", "GOSUMDB=off", "GOTOOLCHAIN=local", "VERIF_REPLAY="+caseFile)
	out, _ := cmd.CombinedOutput()
	rb, err := os.ReadFile(caseFile + ".out")
	if err != nil {
		return nil, string(out), fmt.Errorf("no replay output")
	}
	var res []*replayResult
	if err := json.Unmarshal(rb, &res); err != nil {
		return nil, string(out), err
	}
	return res, string(out), nil
}

func (r *RunResult) specFiles() []string { return r.spec.Files }

func caseFromViolation(v *Violation, params map[string]int, orders bool) *replayCase {
	c := &replayCase{Entry: v.Harness, Inputs: v.Inputs, Params: params, Expect: "violation", Msg: v.Msg, Kind: v.Kind, Tries: 1,
		Site: v.Site, Stack: v.Stack, Schedule: v.Sched, Known: v.Known, Trail: v.Trail}
	if orders {
		c.Tries = 400
	}
	return c
}

func report(id, tier string, ps *PropSpec, results []*RunResult, loadT, wall time.Duration, noReplay bool) int {
	os.MkdirAll(filepath.Join(outDir(), "evidence"), 0755)
	os.MkdirAll(filepath.Join(outDir(), "replay"), 0755)
	seed := 0
	if s := os.Getenv("VERIF_SEED"); s != "" {
		seed, _ = strconv.Atoi(s)
	}
	var total Stats
	inconclusive := []string{}
	var allFuncs, allStubs []string
	fset, sset := map[string]bool{}, map[string]bool{}
	solverQ := 0
	var solverT time.Duration
	type runEv struct {
		Harness     string         `json:"harness"`
		Claim       string         `json:"claim,omitempty"`
		Paths       int64          `json:"paths"`
		Forks       int64          `json:"forks"`
		Obligations int64          `json:"obligations"`
		Discharged  int64          `json:"discharged"`
		Violations  int64          `json:"violations"`
		Known       int64          `json:"known_finding_paths"`
		Schedules   int64          `json:"switches"`
		VisibleOps  int64          `json:"visible_ops"`
		Steps       int64          `json:"ssa_steps"`
		Preempt     int            `json:"preemption_bound"`
		Env         int            `json:"env_event_bound"`
		Params      map[string]int `json:"params,omitempty"`
		AllOrders   bool           `json:"all_map_orders"`
		Race        bool           `json:"race_detection"`
		Canonical   bool           `json:"canonical_schedule_only"`
		SolverQ     int            `json:"solver_queries"`
		SolverS     float64        `json:"solver_time_s"`
		WallS       float64        `json:"wall_s"`
		Reach       map[string]int64 `json:"assert_reach"`
		Status      map[string]int64 `json:"path_status"`
	}
	var runs []runEv
	var samples []interface{}
	validated := 0
	exit := 0
	var violLines, knownLines []string
	old, _ := filepath.Glob(filepath.Join(outDir(), "replay", id+"-*.json"))
	for _, f := range old {
		os.Remove(f)
	}
	for ri, r := range results {
		mergeStats(&total, &r.Stats)
		solverQ += r.SolverQ
		solverT += r.SolverT
		for _, f := range r.Funcs {
			if !fset[f] {
				fset[f] = true
				allFuncs = append(allFuncs, f)
			}
		}
		for _, f := range r.Stubs {
			if !sset[f] {
				sset[f] = true
				allStubs = append(allStubs, f)
			}
		}
		runs = append(runs, runEv{Harness: r.Cfg.Harness, Claim: r.spec.Claim, Paths: r.Stats.Paths, Forks: r.Stats.Forks, Obligations: r.Stats.Obligations,
			Discharged: r.Stats.Discharged, Violations: r.Stats.Violations, Known: r.Stats.Known, Schedules: r.Stats.Switches, VisibleOps: r.Stats.VisibleOps,
			Steps: r.Stats.Steps, Preempt: r.Cfg.Preempt, Env: r.Cfg.EnvEvents, Params: r.Cfg.Params, AllOrders: r.Cfg.AllMapOrders, Race: r.Cfg.Race, Canonical: r.Cfg.Canonical,
			SolverQ: r.SolverQ, SolverS: r.SolverT.Seconds(), WallS: r.Wall.Seconds(), Reach: r.Stats.AssertReach, Status: r.Stats.Status})
		h := r.Cfg.Harness
		if r.Stats.Unsupported > 0 {
			inconclusive = append(inconclusive, fmt.Sprintf("%s: %d paths hit an unsupported operation", h, r.Stats.Unsupported))
		}
		if r.Stats.Unwind > 0 || r.TimedOut {
			inconclusive = append(inconclusive, fmt.Sprintf("%s: unwinding/time/path bound failure", h))
		}
		if r.Stats.Inconclusive > 0 {
			inconclusive = append(inconclusive, fmt.Sprintf("%s: %d inconclusive solver answers", h, r.Stats.Inconclusive))
		}
		if r.Stats.Internal > 0 {
			inconclusive = append(inconclusive, fmt.Sprintf("%s: %d internal errors", h, r.Stats.Internal))
		}
		// vacuity: every harness must reach at least one assertion on a feasible path
		reached := int64(0)
		for _, c := range r.Stats.AssertReach {
			reached += c
		}
		if reached == 0 && r.Stats.Obligations == 0 {
			inconclusive = append(inconclusive, fmt.Sprintf("%s: vacuous (no assertion reached)", h))
		}
		if r.Stats.Status["ok"] == 0 && r.Stats.Violations == 0 && r.Stats.Known == 0 {
			inconclusive = append(inconclusive, fmt.Sprintf("%s: vacuous (no path completed)", h))
		}
		// --- replay ---
		var cases []*replayCase
		for _, s := range r.Samples {
			if len(cases) >= 6 {
				break
			}
			cases = append(cases, &replayCase{Entry: s.Harness, Inputs: s.Inputs, Traces: s.Traces, Params: r.Cfg.Params, Expect: "ok", Tries: 1, Trail: s.Trail})
		}
		nWit := len(cases)
		for _, v := range r.Violations {
			cases = append(cases, caseFromViolation(v, r.Cfg.Params, r.Cfg.AllMapOrders))
		}
		var rres []*replayResult
		replayed := false
		if r.Cfg.Sequential && !noReplay && !r.spec.NoReplay && len(cases) > 0 {
			var out string
			var err error
			rres, out, err = nativeReplay(r.Cfg.PkgDir, r.specFiles(), cases)
			if err != nil {
				inconclusive = append(inconclusive, fmt.Sprintf("%s: native replay failed to run: %v\n%s", h, err, tail(out, 1500)))
			} else {
				replayed = true
			}
		}
		for i, c := range cases {
			var rr *replayResult
			if replayed && i < len(rres) {
				rr = rres[i]
			}
			if i < nWit {
				// positive witness
				if rr != nil {
					if rr.Outcome == "ok" && (rr.TraceOK || hasRnd(c.Inputs)) {
						// (traces are not compared when the run depends on environment values -
						// random draws, clock readings - that cannot be injected natively)
						validated++
					} else if rr.Outcome == "ok" && !rr.TraceOK {
						inconclusive = append(inconclusive, fmt.Sprintf("%s: witness trace differs natively: engine %v native %v", h, c.Traces, rr.Traces))
					} else if hasRnd(c.Inputs) {
						// depends on environment values that cannot be injected natively
					} else {
						inconclusive = append(inconclusive, fmt.Sprintf("%s: witness does not replay natively: %s %s", h, rr.Outcome, rr.Detail))
					}
				}
				if len(samples) < 6 {
					samples = append(samples, map[string]interface{}{"harness": c.Entry, "outcome": "holds", "inputs": c.Inputs, "traces": c.Traces})
				}
				continue
			}
			// violation
			confirmed := "engine-only"
			if rr != nil {
				if rr.Outcome == "assert" || rr.Outcome == "panic" {
					confirmed = "native: " + rr.Outcome + ": " + rr.Detail
					validated++
				} else if hasRnd(c.Inputs) {
					confirmed = "engine-only (depends on environment values that cannot be injected natively)"
				} else {
					inconclusive = append(inconclusive, fmt.Sprintf("%s: counterexample for %q does not reproduce natively (%s %s): engine or stub defect", h, c.Msg, rr.Outcome, rr.Detail))
					continue
				}
			}
			name := fmt.Sprintf("%s-%s-r%d-%d.json", id, c.Entry, ri, i-nWit)
			path := filepath.Join(outDir(), "replay", name)
			rec := map[string]interface{}{"property": id, "case": c, "confirmed": confirmed, "tier": tier,
				"replay_cmd": fmt.Sprintf("cd /verif && ./check %s --replay replay/%s", id, name)}
			b, _ := json.MarshalIndent(rec, "", " ")
			os.WriteFile(path, b, 0644)
			what := fmt.Sprintf("%s/%s at %s: %s", c.Entry, c.Kind, c.Site, c.Msg)
			if c.Known != "" {
				knownLines = append(knownLines, fmt.Sprintf("KNOWN-FINDING: property=%s key=%s %s [%s] replay=%s", id, c.Known, what, confirmed, path))
			} else {
				violLines = append(violLines, fmt.Sprintf("VIOLATION property=%s replay=%s  (%s) [%s]", id, path, what, confirmed))
				if len(samples) < 12 {
					samples = append(samples, map[string]interface{}{"harness": c.Entry, "outcome": "VIOLATION: " + c.Msg, "inputs": c.Inputs})
				}
			}
		}
	}
	// re-decide a sample of the discharged obligations with the other installed solvers
	crossN, crossAgree := 0, 0
	if os.Getenv("VERIF_NOCROSS") == "" {
		type job struct{ c crossSample }
		var jobs []crossSample
		for _, r := range results {
			for i, c := range r.Cross {
				if i < 6 {
					jobs = append(jobs, c)
				}
			}
		}
		if len(jobs) > 24 {
			jobs = jobs[:24]
		}
		type out struct {
			c        crossSample
			r1, r2 string
		}
		ch := make(chan out, len(jobs))
		for _, c := range jobs {
			go func(c crossSample) {
				var lines []string
				for _, l := range strings.Split(c.script, "\n") {
					if strings.HasPrefix(l, "(set-option :timeout") {
						continue
					}
					lines = append(lines, l)
				}
				sc := strings.Join(lines, "\n")
				ch <- out{c, crossCheck(sc, []string{"z3-new", "-in"}, 60), crossCheck("(set-logic ALL)\n"+sc, []string{"cvc5", "--incremental"}, 60)}
			}(c)
		}
		for range jobs {
			o := <-ch
			crossN++
			ok := true
			for _, r := range []string{o.r1, o.r2} {
				if r == "unknown" {
					continue // the other solver timed out: no information
				}
				if r != o.c.want {
					ok = false
					inconclusive = append(inconclusive, fmt.Sprintf("%s: solver disagreement on a discharged obligation: z3=%s z3-new=%s cvc5=%s", o.c.harness, o.c.want, o.r1, o.r2))
				}
			}
			if ok {
				crossAgree++
			}
		}
	}
	sort.Strings(allFuncs)
	sort.Strings(allStubs)
	sort.Strings(knownLines)
	for _, l := range knownLines {
		fmt.Println(l)
	}
	if len(violLines) > 0 {
		exit = 1
		for _, l := range violLines {
			fmt.Println(l)
		}
	}
	if exit == 0 && len(inconclusive) > 0 {
		exit = 3
	}
	for _, l := range inconclusive {
		fmt.Println("INCONCLUSIVE property="+id, l)
	}
	if len(samples) == 0 {
		samples = append(samples, "no completed path")
	}
	states := total.Paths
	if states < 1 {
		states = 1
	}
	trans := total.Decisions + total.Forks
	if trans < 1 {
		trans = 1
	}
	ev := map[string]interface{}{
		"property_id": id, "tier": tier, "seed": seed, "level": "model_checking",
		"wall_s":     wall.Seconds(),
		"violations": len(violLines),
		"coverage": map[string]interface{}{
			"states":                        states,
			"transitions":                   trans,
			"traces_validated_against_impl": validated,
			"samples":                       samples,
			"obligations":                   total.Obligations,
			"discharged":                    total.Discharged,
			"exhaustive":                    len(inconclusive) == 0,
			"explanation":                   "states = completed symbolic paths (each covers every value of its symbolic inputs), transitions = decisions+forks; obligations are solver queries `path condition ∧ ¬property` (unsat = discharged)",
			"solver_queries":                solverQ,
			"solver_time_s":                 solverT.Seconds(),
			"solvers":                       solversUsed(results),
			"cross_checked_obligations":     crossN,
			"cross_check_agreed":            crossAgree,
			"cross_check_solvers":           []string{"z3-new 5.1.0", "cvc5 1.0.3"},
			"functions_encoded":             allFuncs,
			"functions_encoded_count":       len(allFuncs),
			"stubs_hit":                     allStubs,
			"bounds":                        ps.Bounds,
			"outside_claim":                 ps.Outside,
			"runs":                          runs,
			"unwinding_failures":            total.Unwind,
			"unsupported":                   total.Unsupported,
			"inconclusive_queries":          total.Inconclusive,
			"known_findings_reproduced":     knownLines,
			"load_build_s":                  loadT.Seconds(),
			"ssa_steps":                     total.Steps,
			"inconclusive":                  inconclusive,
		},
		"assumptions": ps.Assumptions,
	}
	b, _ := json.MarshalIndent(ev, "", " ")
	os.WriteFile(filepath.Join(outDir(), "evidence", id+".json"), b, 0644)
	fmt.Printf("%s %s: paths=%d obligations=%d discharged=%d violations=%d known=%d validated=%d queries=%d wall=%.1fs exit=%d\n",
		id, tier, total.Paths, total.Obligations, total.Discharged, len(violLines), len(knownLines), validated, solverQ, wall.Seconds(), exit)
	return exit
}

func hasRnd(in []map[string]interface{}) bool {
	for _, i := range in {
		if k, _ := i["kind"].(string); k == "rnd" || k == "clock" {
			return true
		}
	}
	return false
}

func tail(s string, n int) string {
	if len(s) > n {
		return s[len(s)-n:]
	}
	return s
}

func solversUsed(results []*RunResult) []string {
	m := map[string]bool{}
	for _, r := range results {
		if r.Cfg.Solver == "cvc5" {
			m["cvc5 1.0.3 (cvc5 --incremental, one process per worker; used where floating point dominates)"] = true
		} else {
			m["z3 4.8.12 (z3 -in, one process per worker)"] = true
		}
	}
	var out []string
	for k := range m {
		out = append(out, k)
	}
	sort.Strings(out)
	return out
}

// outDir is where evidence and replay files go: /verif, unless VERIF_OUT redirects them (used when
// the engine is pointed at a scratch worktree holding a seeded change, so that the committed
// evidence only ever comes from runs against /repo).
func outDir() string {
	if d := os.Getenv("VERIF_OUT"); d != "" {
		return d
	}
	return verifDir
}
