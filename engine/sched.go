package main

// The engine owns scheduling (DESIGN §3.6). Goroutines of the program run as
// host goroutines passing a single baton; the interleaving is fully determined
// by the decision vector. Re-execution DFS means no state snapshots.

import (
	"fmt"
	"go/types"
	"sync"

	"golang.org/x/tools/go/ssa"
)

type G struct {
	id      int
	vc      VC
	wake    chan bool // true = run, false = die
	done    bool
	enabled func() bool
	stack   []*ssa.Function
	name    string
	env     bool        // environment pseudo-goroutine (timer)
	pending interface{} // object of the pending visible operation (for sleep sets)
	daemon  bool
	held    int // number of mutexes held (for the C08 "no lock held inside transport" lemma)
	awaiting bool // inside h.Await: if nothing can run any more, the awaited event cannot happen within the bounds (path is dropped like a false assumption)
}

type Chan struct {
	id     int
	sendq  []*selCase
	recvq  []*selCase
	vcs    []VC
	cvc    VC
	buf    []Value
	cap    int
	closed bool
}

type mutexState struct {
	locked bool
	owner  *G
	vc     VC
}

type schedState struct {
	gs          []*G
	cur         *G
	preemptions int
	bound       int
	envEvents   int
	mutexes     map[*Cell]*mutexState
	rws         map[*Cell]*rwState
	onces       map[*Cell]*onceState
	wgs         map[*Cell]*wgState
	timers      []*timerState
	wg          sync.WaitGroup
	pathDone    chan pathEnd
	switches    int
	visibleOps  int
	log         []string
	nchan       int
	sleep       map[*G]bool
	quiesceHook []func()
}

func (e *Exec) newSched() {
	e.sch = &schedState{bound: e.cfg.Preempt, mutexes: map[*Cell]*mutexState{}, pathDone: make(chan pathEnd, 1)}
}

func (e *Exec) slog(format string, a ...interface{}) {
	if e.sh.traceSched {
		if len(e.sch.log) < 4000 {
			e.sch.log = append(e.sch.log, fmt.Sprintf("g%d:", e.sch.cur.id)+fmt.Sprintf(format, a...))
		}
	}
}

// yield is called by the running goroutine before a visible operation whose
// enabledness is given by en. On return the operation is enabled and the
// caller holds the baton. preemptible=false marks pure release operations.
func (e *Exec) yield(en func() bool, obj interface{}) {
	s := e.sch
	g := s.cur
	g.enabled = en
	g.pending = obj
	s.visibleOps++
	next := e.pickNext(g)
	if next == nil {
		e.deadlock()
		e.park(g)
		return
	}
	if next != g {
		s.switches++
		s.cur = next
		next.wake <- true
		e.park(g)
	}
	g.pending = nil
}

func (e *Exec) park(g *G) {
	if ok := <-g.wake; !ok {
		panic(pathEnd{"killed", ""})
	}
}

func (e *Exec) finishPath(pe pathEnd) {
	select {
	case e.sch.pathDone <- pe:
	default:
	}
}

// deadlock: nobody can run. If every goroutine that must terminate has, this is quiescence.
func (e *Exec) deadlock() {
	s := e.sch
	main := s.gs[0]
	if main.done {
		e.finishPath(pathEnd{"ok", ""})
		return
	}
	if main.awaiting {
		// the harness waits for an event of the system under test that the bounds (scripted
		// outcomes, environment events) do not produce on this path: not a deadlock of the code
		e.finishPath(pathEnd{"assume", "awaited event cannot happen within the bounds"})
		return
	}
	// main blocked forever
	var desc []string
	for _, g := range s.gs {
		if !g.done && !g.env {
			where := "?"
			if len(g.stack) > 0 {
				where = shortFn(g.stack[len(g.stack)-1].String())
			}
			desc = append(desc, fmt.Sprintf("g%d@%s", g.id, where))
		}
	}
	msg := "deadlock: no goroutine can run"
	// report from the blocked main goroutine's point of view
	s.cur = main
	func() {
		defer func() {
			if r := recover(); r != nil {
				if pe, ok := r.(pathEnd); ok {
					e.finishPath(pe)
					return
				}
				panic(r)
			}
		}()
		e.st.Deadlocks++
		e.obligation(tTrue, "deadlock", msg+" ["+fmt.Sprint(len(desc))+" blocked]")
	}()
}

func (e *Exec) pickNext(g *G) *G {
	s := e.sch
	var cands []*G
	selfEnabled := g != nil && !g.done && !g.env && g.enabled()
	if selfEnabled {
		cands = append(cands, g)
	}
	if !selfEnabled || s.preemptions < s.bound {
		for _, o := range s.gs {
			if o != g && !o.done && !o.env && o.enabled() {
				cands = append(cands, o)
			}
		}
	}
	// environment events (timer fires) are bounded separately and may happen at any scheduling point
	if s.envEvents < e.cfg.EnvEvents {
		for _, o := range s.gs {
			if o.env && !o.done && o.enabled() {
				cands = append(cands, o)
			}
		}
	}
	if len(cands) == 0 {
		return nil
	}
	k := 0
	if len(cands) > 1 && !e.cfg.Canonical {
		k = e.chooseN(len(cands), nil)
	}
	c := cands[k]
	if c.env {
		s.envEvents++
	} else if selfEnabled && c != g {
		s.preemptions++
	}
	return c
}

func (e *Exec) newG(name string) *G {
	s := e.sch
	ng := &G{id: len(s.gs), wake: make(chan bool, 1), enabled: func() bool { return true }, name: name}
	if e.cfg.Race && s.cur != nil {
		pvc := e.gvc()
		ng.vc = pvc.copy()
		ng.vc[ng.id] = 1
		pvc[s.cur.id]++
	}
	s.gs = append(s.gs, ng)
	return ng
}

func (e *Exec) runG(ng *G, body func()) {
	s := e.sch
	s.wg.Add(1)
	go func() {
		defer s.wg.Done()
		defer func() {
			if r := recover(); r != nil {
				if pe, ok := r.(pathEnd); ok {
					if pe.kind != "killed" {
						e.finishPath(pe)
					}
					return
				}
				e.finishPath(pathEnd{"internal", fmt.Sprintf("%v\n%s", r, stackTrace())})
			}
		}()
		e.park(ng)
		body()
		ng.done = true
		if ng.id == 0 {
			e.finishPath(pathEnd{"ok", ""})
			return
		}
		next := e.pickNext(nil)
		if next == nil {
			e.deadlock()
			return
		}
		s.cur = next
		next.wake <- true
	}()
}

func (e *Exec) spawn(fn *ssa.Function, args, free []Value) {
	ng := e.newG(fn.String())
	e.slog("go %s -> g%d", shortFn(fn.String()), ng.id)
	e.runG(ng, func() { e.call(fn, args, free) })
	// spawning is a visible op: the new goroutine may run first
	e.yield(func() bool { return true }, nil)
}

// ---- mutex ----

func (e *Exec) mutexOf(c *Cell) *mutexState {
	m := e.sch.mutexes[c]
	if m == nil {
		m = &mutexState{}
		e.sch.mutexes[c] = m
	}
	return m
}

func (e *Exec) lock(c *Cell) {
	m := e.mutexOf(c)
	g := e.sch.cur
	if m.locked && m.owner == g && e.onlyRunnable(g) {
		// self-deadlock is reported by the generic deadlock detection
	}
	e.yield(func() bool { return !m.locked }, c)
	m.locked = true
	m.owner = g
	g.held++
	e.slog("lock %p", c)
	e.acquire(m.vc)
}

func (e *Exec) onlyRunnable(g *G) bool { return false }

func (e *Exec) tryLock(c *Cell) bool {
	m := e.mutexOf(c)
	e.yield(func() bool { return true }, c)
	if m.locked {
		return false
	}
	m.locked = true
	m.owner = e.sch.cur
	e.sch.cur.held++
	e.acquire(m.vc)
	return true
}

func (e *Exec) unlock(c *Cell) {
	m := e.mutexOf(c)
	if !m.locked {
		e.goPanic("sync: unlock of unlocked mutex")
	}
	e.release(&m.vc)
	m.locked = false
	if m.owner != nil {
		m.owner.held--
	}
	m.owner = nil
	e.slog("unlock %p", c)
}

// ---- RWMutex with Go's writer preference (DESIGN §3.9) ----

type rwState struct {
	wvc, rvc  VC
	wHeld     bool
	announced bool
	active    int
	blocked   int
	epoch     int
	wowner    *G
}

func (e *Exec) rwOf(c *Cell) *rwState {
	if e.sch.rws == nil {
		e.sch.rws = map[*Cell]*rwState{}
	}
	m := e.sch.rws[c]
	if m == nil {
		m = &rwState{}
		e.sch.rws[c] = m
	}
	return m
}

func (e *Exec) rlock(c *Cell) {
	m := e.rwOf(c)
	e.yield(func() bool { return true }, c)
	e.sch.cur.held++
	if !m.announced {
		m.active++
		e.acquire(m.wvc)
		e.slog("rlock %p", c)
		return
	}
	m.blocked++
	ticket := m.epoch
	e.yield(func() bool { return m.epoch > ticket }, c)
	e.acquire(m.wvc)
	e.slog("rlock(after writer) %p", c)
}

func (e *Exec) runlock(c *Cell) {
	m := e.rwOf(c)
	if m.active <= 0 {
		e.goPanic("sync: RUnlock of unlocked RWMutex")
	}
	e.release(&m.rvc)
	m.active--
	e.sch.cur.held--
	e.slog("runlock %p", c)
}

func (e *Exec) wlock(c *Cell) {
	m := e.rwOf(c)
	e.yield(func() bool { return !m.wHeld }, c)
	m.wHeld = true
	m.announced = true
	m.wowner = e.sch.cur
	e.sch.cur.held++
	if m.active > 0 {
		e.yield(func() bool { return m.active == 0 }, c)
	}
	e.acquire(m.wvc)
	e.acquire(m.rvc)
	e.slog("wlock %p", c)
}

func (e *Exec) wunlock(c *Cell) {
	m := e.rwOf(c)
	if !m.wHeld {
		e.goPanic("sync: Unlock of unlocked RWMutex")
	}
	e.release(&m.wvc)
	m.announced = false
	m.active += m.blocked
	m.blocked = 0
	m.epoch++
	m.wHeld = false
	if m.wowner != nil {
		m.wowner.held--
	}
	m.wowner = nil
	e.slog("wunlock %p", c)
}

type onceState struct {
	done, running bool
	vc            VC
}

func (e *Exec) onceDo(c *Cell, f *Closure) {
	if e.sch.onces == nil {
		e.sch.onces = map[*Cell]*onceState{}
	}
	o := e.sch.onces[c]
	if o == nil {
		o = &onceState{}
		e.sch.onces[c] = o
	}
	e.yield(func() bool { return !o.running }, c)
	if o.done {
		e.acquire(o.vc)
		return
	}
	o.running = true
	e.call(f.fn, nil, f.free)
	o.done = true
	o.running = false
	e.release(&o.vc)
}

type wgState struct {
	n  int
	vc VC
}

func (e *Exec) wgOf(c *Cell) *wgState {
	if e.sch.wgs == nil {
		e.sch.wgs = map[*Cell]*wgState{}
	}
	w := e.sch.wgs[c]
	if w == nil {
		w = &wgState{}
		e.sch.wgs[c] = w
	}
	return w
}

// ---- channels ----

type waiter struct {
	parked bool // the scheduler has committed to "this goroutine is parked in the wait queue" (see notYetParked)
	fired int
	val   Value
	ok    bool
	vc    VC
	g     *G
}

type selCase struct {
	c    *Chan
	send bool
	v    Value
	w    *waiter
	idx  int
}

func removeCase(q []*selCase, sc *selCase) []*selCase {
	for i, x := range q {
		if x == sc {
			return append(append([]*selCase{}, q[:i]...), q[i+1:]...)
		}
	}
	return q
}

func (e *Exec) newChan(cap int) *Chan {
	e.sch.nchan++
	return &Chan{cap: cap, id: e.sch.nchan}
}

// selectOp performs a (possibly single-case) select with rendezvous semantics for unbuffered channels.
func (e *Exec) selectOp(cases []*selCase, blocking bool) (int, Value, bool) {
	w := &waiter{fired: -1, g: e.sch.cur}
	for i, sc := range cases {
		sc.w, sc.idx = w, i
		if sc.c == nil {
			continue
		}
		if sc.send {
			sc.c.sendq = append(sc.c.sendq, sc)
		} else {
			sc.c.recvq = append(sc.c.recvq, sc)
		}
	}
	partner := func(q []*selCase) *selCase {
		for _, x := range q {
			if x.w != w && x.w.fired < 0 {
				return x
			}
		}
		return nil
	}
	ready := func(sc *selCase) bool {
		if sc.c == nil {
			return false
		}
		if sc.send {
			return sc.c.closed || len(sc.c.buf) < sc.c.cap || (sc.c.cap == 0 && partner(sc.c.recvq) != nil)
		}
		return sc.c.closed || len(sc.c.buf) > 0 || (sc.c.cap == 0 && partner(sc.c.sendq) != nil)
	}
	anyReady := func() bool {
		for _, sc := range cases {
			if ready(sc) {
				return true
			}
		}
		return false
	}
	var obj interface{}
	if len(cases) == 1 && cases[0].c != nil {
		obj = cases[0].c
	}
	e.yield(func() bool { return w.fired >= 0 || !blocking || anyReady() }, obj)
	unregister := func() {
		for _, sc := range cases {
			if sc.c == nil {
				continue
			}
			if sc.send {
				sc.c.sendq = removeCase(sc.c.sendq, sc)
			} else {
				sc.c.recvq = removeCase(sc.c.recvq, sc)
			}
		}
	}
	if w.fired >= 0 { // a partner completed one of my cases while I was parked
		unregister()
		e.acquire(w.vc)
		return w.fired, w.val, w.ok
	}
	var rs []int
	for i, sc := range cases {
		if ready(sc) {
			if !blocking && e.notYetParked(sc, partner) {
				continue
			}
			rs = append(rs, i)
		}
	}
	if len(rs) == 0 {
		unregister()
		return -1, nil, false
	}
	k := 0
	if len(rs) > 1 && !e.cfg.Canonical {
		k = e.chooseN(len(rs), nil)
	}
	sc := cases[rs[k]]
	unregister()
	w.fired = rs[k]
	c := sc.c
	if sc.send {
		if c.closed {
			e.goPanic("send on closed channel")
		}
		var evc VC
		e.release(&evc)
		e.slog("send ch%d", c.id)
		if len(c.buf) < c.cap {
			c.buf = append(c.buf, sc.v)
			c.vcs = append(c.vcs, evc)
			return rs[k], nil, false
		}
		p := partner(c.recvq)
		p.w.fired, p.w.val, p.w.ok, p.w.vc = p.idx, sc.v, true, evc
		// rendezvous: the receive is synchronised before the completion of the send as well
		if p.w.g != nil {
			e.acquire(p.w.g.vc)
		}
		return rs[k], nil, false
	}
	e.slog("recv ch%d", c.id)
	if len(c.buf) > 0 {
		v := c.buf[0]
		c.buf = c.buf[1:]
		if len(c.vcs) > 0 {
			e.acquire(c.vcs[0])
			c.vcs = c.vcs[1:]
		}
		return rs[k], v, true
	}
	if p := partner(c.sendq); c.cap == 0 && p != nil {
		p.w.fired = p.idx
		// rendezvous with a parked sender: its clock has not moved since it parked
		if p.w.g != nil {
			e.acquire(p.w.g.vc)
		}
		var rvc VC
		e.release(&rvc)
		p.w.vc = rvc
		return rs[k], p.v, true
	}
	e.acquire(c.cvc)
	return rs[k], nil, false
}

// notYetParked: a non-blocking send/receive (select with default) on an unbuffered channel
// succeeds only if the partner is already parked in the channel's wait queue. A goroutine that has
// arrived at its blocking operation parks at once unless it is preempted right there - the window
// in which a non-blocking wake-up token is lost. The engine registers a waiter when its goroutine
// arrives, so here the scheduler decides (at the price of one preemption, within the bound)
// whether the partner had parked or is still in that window; in the latter case the non-blocking
// operation does not find it.
func (e *Exec) notYetParked(sc *selCase, partner func([]*selCase) *selCase) bool {
	c := sc.c
	if c == nil || c.cap != 0 || c.closed || e.cfg.Canonical {
		return false
	}
	q := c.recvq
	if !sc.send {
		q = c.sendq
	}
	p := partner(q)
	if p == nil || p.w.parked {
		return false
	}
	s := e.sch
	if s.preemptions >= s.bound {
		p.w.parked = true
		return false
	}
	if e.chooseN(2, nil) == 0 {
		p.w.parked = true
		return false
	}
	s.preemptions++
	e.slog("partner g%d not parked yet on ch%d", p.w.g.id, c.id)
	return true
}

func (e *Exec) chanSend(c *Chan, v Value) {
	e.selectOp([]*selCase{{c: c, send: true, v: v}}, true)
}

func (e *Exec) chanRecv(c *Chan, elem types.Type) (Value, bool) {
	_, v, ok := e.selectOp([]*selCase{{c: c}}, true)
	if !ok {
		return e.zero(elem), false
	}
	return v, true
}

func (e *Exec) chanClose(c *Chan) {
	if c == nil {
		e.goPanic("close of nil channel")
	}
	e.yield(func() bool { return true }, c)
	if c.closed {
		e.goPanic("close of closed channel")
	}
	e.release(&c.cvc)
	c.closed = true
	e.slog("close ch%d", c.id)
}

func (e *Exec) doSelect(fr *frame, x *ssa.Select) Value {
	var cases []*selCase
	for _, st := range x.States {
		c, _ := e.get(fr, st.Chan).(*Chan)
		sc := &selCase{c: c, send: st.Dir == types.SendOnly}
		if sc.send {
			sc.v = e.get(fr, st.Send)
		}
		cases = append(cases, sc)
	}
	idx, v, ok := e.selectOp(cases, x.Blocking)
	res := Tuple{K(int64(idx)), B(ok)}
	for i, st := range x.States {
		if st.Dir == types.RecvOnly {
			if i == idx && ok {
				res = append(res, v)
			} else {
				res = append(res, e.zero(st.Chan.Type().Underlying().(*types.Chan).Elem()))
			}
		}
	}
	return res
}

// ---- timers as environment events (DESIGN §3.9): pre-1.23 semantics, C has capacity 1 ----

type timerState struct {
	ch    *Chan
	armed bool
	g     *G
	fn    *Closure // AfterFunc
	elem  types.Type
	periodic bool // time.Ticker: stays armed after a tick
}

func (e *Exec) newTimer(elem types.Type, fn *Closure) *timerState {
	t := &timerState{ch: e.newChan(1), armed: true, fn: fn, elem: elem}
	e.sch.timers = append(e.sch.timers, t)
	g := e.newG("timer")
	g.env = true
	g.enabled = func() bool { return t.armed }
	t.g = g
	e.runG(g, func() {
		for {
			// each wake-up of this pseudo-goroutine is one fire event
			if t.armed {
				if !t.periodic {
					t.armed = false
				}
				e.slog("timer fires")
				if t.fn != nil {
					f := t.fn
					ng := e.newG("afterfunc")
					e.runG(ng, func() { e.call(f.fn, nil, f.free) })
				} else if len(t.ch.buf) < 1 {
					t.ch.buf = append(t.ch.buf, e.zero(t.elem))
					var evc VC
					e.release(&evc)
					t.ch.vcs = append(t.ch.vcs, evc)
				}
			}
			e.yield(func() bool { return t.armed }, t)
		}
	})
	return t
}

// ---- running one path ----

func (e *Exec) runPath(fn *ssa.Function, h Value) pathEnd {
	e.newSched()
	s := e.sch
	mainG := e.newG("main")
	s.cur = mainG
	e.runG(mainG, func() {
		e.runInits()
		e.call(fn, []Value{h}, nil)
	})
	mainG.wake <- true
	status := <-s.pathDone
	// kill everything still parked
	for _, g := range s.gs {
		select {
		case g.wake <- false:
		default:
		}
	}
	s.wg.Wait()
	return status
}

func (e *Exec) runInits() {
	for _, f := range e.initFns {
		e.call(f, nil, nil)
	}
}
