package main

// Long-lived solver processes over pipes. One session per worker; the path
// condition is sent lazily (only when a query needs it). Any "(error", "unknown"
// or timeout is returned as inconclusive, never as success.

import (
	"bufio"
	"os"
	"math"
	"fmt"
	"io"
	"math/big"
	"os/exec"
	"strconv"
	"strings"
	"time"
)

type Solver struct {
	bin     []string
	cmd     *exec.Cmd
	in      io.WriteCloser
	out     *bufio.Reader
	decl    map[string]bool
	defined map[*Term]string
	ndef    int
	pending []*Term  // asserted on the path but not yet sent
	sent    bool     // something was sent since the last reset
	script  []string // every command since the last reset (for cross-checking)
	Queries int
	Time    time.Duration
	timeout int // ms per query
	depth   int // number of decision scopes currently pushed
	replay  bool // inside the shared decision prefix: assertions are already in the solver
	sinceReset int
	Broken  bool
}

func NewSolver(bin ...string) *Solver {
	if len(bin) == 0 {
		bin = []string{"z3", "-in"}
	}
	s := &Solver{bin: bin, timeout: 30000}
	s.start()
	return s
}

func (s *Solver) start() {
	cmd := exec.Command(s.bin[0], s.bin[1:]...)
	in, _ := cmd.StdinPipe()
	out, _ := cmd.StdoutPipe()
	cmd.Stderr = cmd.Stdout
	if err := cmd.Start(); err != nil {
		panic(err)
	}
	s.cmd, s.in, s.out = cmd, in, bufio.NewReaderSize(out, 1<<16)
	s.decl = map[string]bool{}
	s.defined = map[*Term]string{}
	s.script = nil
	s.sent = false
	s.preamble()
}

func (s *Solver) preamble() {
	if strings.Contains(s.bin[0], "cvc5") {
		s.raw("(set-logic ALL)")
		s.raw("(set-option :produce-models true)")
	} else {
		s.raw(fmt.Sprintf("(set-option :timeout %d)", s.timeout))
	}
	s.raw("(set-option :global-declarations true)")
}

func (s *Solver) raw(str string) {
	io.WriteString(s.in, str+"\n")
	s.script = append(s.script, str)
}

func (s *Solver) Close() {
	s.in.Close()
	done := make(chan bool)
	go func() { s.cmd.Wait(); close(done) }()
	select {
	case <-done:
	case <-time.After(2 * time.Second):
		s.cmd.Process.Kill()
	}
}

// StartPath prepares the solver for a path that shares its first `shared` decisions
// with the previous path of this worker (DESIGN §3.2: the context is kept across
// paths by push/pop back to the longest common decision prefix). shared < 0 forces a reset.
func (s *Solver) StartPath(shared int) {
	s.pending = s.pending[:0]
	s.sinceReset++
	if shared < 0 || shared > s.depth || s.sinceReset > 3000 || s.Broken {
		s.Reset()
		s.replay = false
		return
	}
	if s.depth > shared {
		s.raw(fmt.Sprintf("(pop %d)", s.depth-shared))
		s.depth = shared
	}
	// assertions made before decision `shared` is reached are already in the solver
	s.replay = true
}

// Decision marks decision number idx of the path (0-based) as being taken.
func (s *Solver) Decision(idx int) {
	if s.replay {
		if idx < s.depth {
			return
		}
		// the first decision that differs from the previous path: from here on assert for real
		s.replay = false
		s.pending = s.pending[:0]
	}
	s.flush()
	s.raw("(push 1)")
	s.depth++
}

// Reset forgets everything.
func (s *Solver) Reset() {
	s.pending = s.pending[:0]
	s.depth = 0
	s.sinceReset = 0
	s.Broken = false
	s.replay = false
	if !s.sent {
		return
	}
	s.script = nil
	s.raw("(reset)")
	s.preamble()
	s.ndef = 0
	s.decl = map[string]bool{}
	s.defined = map[*Term]string{}
	s.sent = false
}

func (s *Solver) Assert(t *Term) {
	if t.IsTrue() || s.replay {
		return
	}
	s.pending = append(s.pending, t)
}

// ref returns the printed reference of t, emitting declarations/definitions as needed.
func (s *Solver) ref(t *Term) string {
	if len(t.Args) == 0 {
		if t.Op == OVar && !s.decl[t.Name] {
			s.decl[t.Name] = true
			s.raw("(declare-const " + t.Name + " " + t.Sort.SMT() + ")")
		}
		return t.smtNode(nil)
	}
	if n, ok := s.defined[t]; ok {
		return n
	}
	a := make([]string, len(t.Args))
	for i, x := range t.Args {
		a[i] = s.ref(x)
	}
	body := t.smtNode(a)
	s.ndef++
	name := "t!" + strconv.Itoa(s.ndef)
	s.raw("(define-fun " + name + " () " + t.Sort.SMT() + " " + body + ")")
	s.defined[t] = name
	return name
}

func (s *Solver) flush() {
	for _, t := range s.pending {
		s.sent = true
		r := s.ref(t)
		s.raw("(assert " + r + ")")
	}
	s.pending = s.pending[:0]
}

func (s *Solver) readLine() string {
	line, err := s.out.ReadString('\n')
	if err != nil {
		return "(error \"solver died: " + err.Error() + "\")"
	}
	return strings.TrimSpace(line)
}

// Check decides satisfiability of the path condition plus extra.
// Returns "sat", "unsat" or "unknown" (covering errors and timeouts).
func (s *Solver) Check(extra ...*Term) string {
	t0 := time.Now()
	s.flush()
	s.sent = true
	var refs []string
	for _, e := range extra {
		if e.IsFalse() {
			s.raw("(push 1)") // keep Pop balanced
			return "unsat"
		}
		if !e.IsTrue() {
			refs = append(refs, s.ref(e))
		}
	}
	s.raw("(push 1)")
	for _, r := range refs {
		s.raw("(assert " + r + ")")
	}
	io.WriteString(s.in, "(check-sat)\n")
	res := s.readLine()
	s.Queries++
	s.Time += time.Since(t0)
	if time.Since(t0) > 5*time.Second && os.Getenv("VERIF_DEBUG") != "" {
		os.WriteFile(fmt.Sprintf("/tmp/gosym-slow-%d-%s.smt2", s.Queries, res), []byte(s.ScriptSnapshot()), 0644)
		fmt.Fprintln(os.Stderr, "SLOW QUERY", time.Since(t0), res)
	}
	if res != "sat" && res != "unsat" {
		if os.Getenv("VERIF_DEBUG") != "" {
			fmt.Fprintln(os.Stderr, "SOLVER SAID:", res)
			os.WriteFile("/tmp/gosym-unknown.smt2", []byte(s.ScriptSnapshot()), 0644)
		}
		// drain nothing more; treat as inconclusive. A dead solver is restarted.
		if strings.Contains(res, "died") {
			s.start()
			s.Broken = true
			return "unknown"
		}
		s.raw("(pop 1)")
		return "unknown"
	}
	return res
}

// snapshot of the script for the query just decided (before Pop), for cross-checking
func (s *Solver) ScriptSnapshot() string {
	return strings.Join(s.script, "\n") + "\n(check-sat)\n"
}

// Pop closes the scope opened by Check.
func (s *Solver) Pop() {
	s.raw("(pop 1)")
}

// Model returns values of the given variables; valid after a "sat" Check and before Pop.
func (s *Solver) Model(vars []*Term) map[string]interface{} {
	m := map[string]interface{}{}
	if len(vars) == 0 {
		return m
	}
	var names []string
	for _, v := range vars {
		if !s.decl[v.Name] {
			continue
		}
		names = append(names, v.Name)
	}
	if len(names) == 0 {
		return m
	}
	io.WriteString(s.in, "(get-value ("+strings.Join(names, " ")+"))\n")
	depth := 0
	var sb strings.Builder
	for {
		r, _, err := s.out.ReadRune()
		if err != nil {
			return m
		}
		sb.WriteRune(r)
		if r == '(' {
			depth++
		} else if r == ')' {
			depth--
			if depth == 0 {
				break
			}
		}
	}
	s.out.ReadString('\n')
	sorts := map[string]Sort{}
	for _, v := range vars {
		sorts[v.Name] = v.Sort
	}
	parseModel(sb.String(), sorts, m)
	return m
}

// ---- s-expression parsing of get-value output ----

type sexp struct {
	atom string
	list []*sexp
}

func parseSexp(toks []string, pos *int) *sexp {
	if toks[*pos] == "(" {
		*pos++
		n := &sexp{}
		for toks[*pos] != ")" {
			n.list = append(n.list, parseSexp(toks, pos))
		}
		*pos++
		return n
	}
	a := toks[*pos]
	*pos++
	return &sexp{atom: a}
}

func tokenize(s string) []string {
	s = strings.ReplaceAll(s, "(", " ( ")
	s = strings.ReplaceAll(s, ")", " ) ")
	return strings.Fields(s)
}

func sexpInt(e *sexp) *big.Int {
	if e.atom != "" {
		b, ok := new(big.Int).SetString(e.atom, 10)
		if !ok {
			// decimal like 3.0
			if i := strings.Index(e.atom, "."); i >= 0 {
				b, _ = new(big.Int).SetString(e.atom[:i], 10)
			}
		}
		if b == nil {
			b = big.NewInt(0)
		}
		return b
	}
	if len(e.list) == 2 && e.list[0].atom == "-" {
		return new(big.Int).Neg(sexpInt(e.list[1]))
	}
	return big.NewInt(0)
}

func bitsOf(a string) (uint64, int) {
	if strings.HasPrefix(a, "#b") {
		v, _ := strconv.ParseUint(a[2:], 2, 64)
		return v, len(a) - 2
	}
	if strings.HasPrefix(a, "#x") {
		v, _ := strconv.ParseUint(a[2:], 16, 64)
		return v, 4 * (len(a) - 2)
	}
	return 0, 0
}

func sexpFloat(e *sexp, s Sort) float64 {
	eb, mb := 11, 52
	if s == SF32 {
		eb, mb = 8, 23
	}
	mk := func(sign, exp, man uint64) float64 {
		if s == SF32 {
			return float64(math.Float32frombits(uint32(sign<<31 | exp<<23 | man)))
		}
		return math.Float64frombits(sign<<63 | exp<<52 | man)
	}
	if len(e.list) == 4 && e.list[0].atom == "fp" {
		sg, _ := bitsOf(e.list[1].atom)
		ex, _ := bitsOf(e.list[2].atom)
		mn, _ := bitsOf(e.list[3].atom)
		return mk(sg, ex, mn)
	}
	if len(e.list) >= 2 && e.list[0].atom == "_" {
		switch e.list[1].atom {
		case "+zero":
			return 0
		case "-zero":
			return mk(1, 0, 0)
		case "+oo":
			return mk(0, (1<<uint(eb))-1, 0)
		case "-oo":
			return mk(1, (1<<uint(eb))-1, 0)
		case "NaN":
			return mk(0, (1<<uint(eb))-1, 1<<uint(mb-1))
		}
	}
	return 0
}

func parseModel(out string, sorts map[string]Sort, m map[string]interface{}) {
	toks := tokenize(out)
	if len(toks) == 0 {
		return
	}
	pos := 0
	root := parseSexp(toks, &pos)
	for _, pr := range root.list {
		if len(pr.list) != 2 {
			continue
		}
		name := pr.list[0].atom
		switch sorts[name] {
		case SBool:
			m[name] = pr.list[1].atom == "true"
		case SInt:
			m[name] = sexpInt(pr.list[1])
		default:
			m[name] = sexpFloat(pr.list[1], sorts[name])
		}
	}
}

// ---- one-shot cross-check with other solvers ----

func crossCheck(script string, bin []string, timeoutS int) string {
	args := append([]string{}, bin[1:]...)
	cmd := exec.Command("timeout", append([]string{strconv.Itoa(timeoutS), bin[0]}, args...)...)
	cmd.Stdin = strings.NewReader(script)
	out, _ := cmd.CombinedOutput()
	res := "unknown"
	for _, l := range strings.Split(string(out), "\n") {
		l = strings.TrimSpace(l)
		if strings.Contains(l, "(error") {
			return "error: " + l
		}
		if l == "sat" || l == "unsat" {
			res = l
		}
	}
	return res
}
