package main

// Term DAG: sorts Int, Bool, Float32, Float64; constant folding; exact
// machine-integer wrap terms over mathematical integers (LIA), see DESIGN §3.3.

import (
	"fmt"
	"math"
	"math/big"
	"strings"
	"sync/atomic"
)

type Sort uint8

const (
	SInt Sort = iota
	SBool
	SF32
	SF64
)

func (s Sort) SMT() string {
	switch s {
	case SInt:
		return "Int"
	case SBool:
		return "Bool"
	case SF32:
		return "Float32"
	case SF64:
		return "Float64"
	}
	return "?"
}

type Op uint8

const (
	OConst Op = iota
	OVar
	OAdd
	OSub
	OMul // at least one side constant, or both symbolic (then marks NIA; refused by callers)
	ODiv // truncated division (Go semantics), divisor non-zero asserted separately
	ORem // truncated remainder
	OIte
	OEq
	OLt
	OLe
	OAnd
	OOr
	ONot
	OWrap // Args[0] reduced to W bits, Signed
	OSat  // saturate to int64 (time.Time.Sub)
	OFAdd
	OFSub
	OFMul
	OFDiv
	OFNeg
	OFEq
	OFLt
	OFLe
	OFIsNaN
	OI2F // signed int -> float (Sort of node)
	OU2F // unsigned int -> float
	OF2F // float -> float (Sort of node)
	OF2I // float -> signed int (RTZ), W bits; behaviour for out of range is unspecified in Go: caller guards
)

type Term struct {
	Op     Op
	Sort   Sort
	Args   []*Term
	K      int64
	Big    *big.Int // non-nil: integer constant outside int64
	F      float64  // float constant
	Name   string
	W      uint8
	Signed bool
	One    bool // OWrap: argument is known to be within one period of the range (add/sub of in-range values)
	id     uint64
}

var termIDs uint64

func mk(op Op, s Sort, args ...*Term) *Term {
	return &Term{Op: op, Sort: s, Args: args, id: atomic.AddUint64(&termIDs, 1)}
}

var tTrue = &Term{Op: OConst, Sort: SBool, K: 1}
var tFalse = &Term{Op: OConst, Sort: SBool, K: 0}

func B(b bool) *Term {
	if b {
		return tTrue
	}
	return tFalse
}

var smallInts [258]*Term

func init() {
	for i := range smallInts {
		smallInts[i] = &Term{Op: OConst, Sort: SInt, K: int64(i - 1)}
	}
}

func K(v int64) *Term {
	if v >= -1 && v <= 256 {
		return smallInts[v+1]
	}
	return &Term{Op: OConst, Sort: SInt, K: v}
}

func KBig(b *big.Int) *Term {
	if b.IsInt64() {
		return K(b.Int64())
	}
	return &Term{Op: OConst, Sort: SInt, Big: new(big.Int).Set(b)}
}

func KU(v uint64) *Term {
	if v <= math.MaxInt64 {
		return K(int64(v))
	}
	return &Term{Op: OConst, Sort: SInt, Big: new(big.Int).SetUint64(v)}
}

func KF(f float64, s Sort) *Term {
	if s == SF32 {
		f = float64(float32(f))
	}
	return &Term{Op: OConst, Sort: s, F: f}
}

func Var(name string, s Sort) *Term {
	t := mk(OVar, s)
	t.Name = name
	return t
}

func (t *Term) IsConst() bool { return t.Op == OConst }
func (t *Term) BoolVal() bool { return t.K != 0 }
func (t *Term) BigVal() *big.Int {
	if t.Big != nil {
		return t.Big
	}
	return big.NewInt(t.K)
}
func (t *Term) IsTrue() bool  { return t == tTrue || (t.Op == OConst && t.Sort == SBool && t.K != 0) }
func (t *Term) IsFalse() bool { return t == tFalse || (t.Op == OConst && t.Sort == SBool && t.K == 0) }

// ConstInt64 returns the value of an int constant that fits int64.
func (t *Term) ConstInt64() (int64, bool) {
	if t.Op == OConst && t.Sort == SInt && t.Big == nil {
		return t.K, true
	}
	return 0, false
}

func Not(a *Term) *Term {
	if a.IsConst() {
		return B(!a.BoolVal())
	}
	if a.Op == ONot {
		return a.Args[0]
	}
	return mk(ONot, SBool, a)
}

func And(a, b *Term) *Term {
	if a.IsFalse() || b.IsFalse() {
		return tFalse
	}
	if a.IsTrue() {
		return b
	}
	if b.IsTrue() {
		return a
	}
	if a == b {
		return a
	}
	return mk(OAnd, SBool, a, b)
}

func Or(a, b *Term) *Term {
	if a.IsTrue() || b.IsTrue() {
		return tTrue
	}
	if a.IsFalse() {
		return b
	}
	if b.IsFalse() {
		return a
	}
	if a == b {
		return a
	}
	return mk(OOr, SBool, a, b)
}

func Implies(a, b *Term) *Term { return Or(Not(a), b) }

func bothSmall(a, b *Term) bool {
	return a.Op == OConst && b.Op == OConst && a.Big == nil && b.Big == nil
}

func Eq(a, b *Term) *Term {
	if a == b && a.Sort != SF32 && a.Sort != SF64 {
		return tTrue
	}
	if a.Sort != b.Sort {
		panic(fmt.Sprintf("Eq sort mismatch %v %v", a.Sort, b.Sort))
	}
	if a.IsConst() && b.IsConst() {
		switch a.Sort {
		case SBool:
			return B(a.BoolVal() == b.BoolVal())
		case SInt:
			if bothSmall(a, b) {
				return B(a.K == b.K)
			}
			return B(a.BigVal().Cmp(b.BigVal()) == 0)
		}
	}
	if a.Sort == SBool {
		// a <-> b
		if a.IsConst() {
			if a.BoolVal() {
				return b
			}
			return Not(b)
		}
		if b.IsConst() {
			if b.BoolVal() {
				return a
			}
			return Not(a)
		}
	}
	if a.Sort == SF32 || a.Sort == SF64 {
		return FCmp(OFEq, a, b)
	}
	return mk(OEq, SBool, a, b)
}

func Lt(a, b *Term) *Term {
	if a.IsConst() && b.IsConst() {
		if bothSmall(a, b) {
			return B(a.K < b.K)
		}
		return B(a.BigVal().Cmp(b.BigVal()) < 0)
	}
	if a == b {
		return tFalse
	}
	return mk(OLt, SBool, a, b)
}

func Le(a, b *Term) *Term {
	if a.IsConst() && b.IsConst() {
		if bothSmall(a, b) {
			return B(a.K <= b.K)
		}
		return B(a.BigVal().Cmp(b.BigVal()) <= 0)
	}
	if a == b {
		return tTrue
	}
	return mk(OLe, SBool, a, b)
}

func Ite(c, a, b *Term) *Term {
	if c.IsConst() {
		if c.BoolVal() {
			return a
		}
		return b
	}
	if a == b {
		return a
	}
	if a.Sort == SBool {
		return Or(And(c, a), And(Not(c), b))
	}
	return mk(OIte, a.Sort, c, a, b)
}

// ---- raw (unwrapped, mathematical) integer arithmetic ----

func RawAdd(a, b *Term) *Term {
	if a.IsConst() && b.IsConst() {
		if bothSmall(a, b) {
			s := a.K + b.K
			if (s > a.K) == (b.K > 0) {
				return K(s)
			}
		}
		return KBig(new(big.Int).Add(a.BigVal(), b.BigVal()))
	}
	if b.IsConst() && b.Big == nil && b.K == 0 {
		return a
	}
	if a.IsConst() && a.Big == nil && a.K == 0 {
		return b
	}
	return mk(OAdd, SInt, a, b)
}

func RawSub(a, b *Term) *Term {
	if a.IsConst() && b.IsConst() {
		return KBig(new(big.Int).Sub(a.BigVal(), b.BigVal()))
	}
	if b.IsConst() && b.Big == nil && b.K == 0 {
		return a
	}
	if a == b {
		return K(0)
	}
	return mk(OSub, SInt, a, b)
}

func RawMul(a, b *Term) *Term {
	if a.IsConst() && b.IsConst() {
		return KBig(new(big.Int).Mul(a.BigVal(), b.BigVal()))
	}
	for _, p := range [][2]*Term{{a, b}, {b, a}} {
		if v, ok := p[0].ConstInt64(); ok {
			if v == 0 {
				return K(0)
			}
			if v == 1 {
				return p[1]
			}
		}
	}
	return mk(OMul, SInt, a, b)
}

// truncated division / remainder on mathematical integers (divisor != 0 is the caller's obligation)
func RawQuo(a, b *Term) *Term {
	if a.IsConst() && b.IsConst() && b.BigVal().Sign() != 0 {
		return KBig(new(big.Int).Quo(a.BigVal(), b.BigVal()))
	}
	if v, ok := b.ConstInt64(); ok && v == 1 {
		return a
	}
	return mk(ODiv, SInt, a, b)
}

func RawRem(a, b *Term) *Term {
	if a.IsConst() && b.IsConst() && b.BigVal().Sign() != 0 {
		return KBig(new(big.Int).Rem(a.BigVal(), b.BigVal()))
	}
	return mk(ORem, SInt, a, b)
}

func isLinear(t *Term) bool {
	// symbolic*symbolic products or symbolic divisors are non-linear
	switch t.Op {
	case OMul:
		return t.Args[0].IsConst() || t.Args[1].IsConst()
	case ODiv, ORem:
		return t.Args[1].IsConst()
	}
	return true
}

var pow2 [130]*big.Int

func init() {
	for i := range pow2 {
		pow2[i] = new(big.Int).Lsh(big.NewInt(1), uint(i))
	}
}

func wrapBig(v *big.Int, w int, signed bool) *big.Int {
	r := new(big.Int).Mod(v, pow2[w]) // Euclidean: 0 <= r < 2^w
	if signed && r.Cmp(pow2[w-1]) >= 0 {
		r.Sub(r, pow2[w])
	}
	return r
}

func inRange(v *big.Int, w int, signed bool) bool {
	if signed {
		lo := new(big.Int).Neg(pow2[w-1])
		return v.Cmp(lo) >= 0 && v.Cmp(pow2[w-1]) < 0
	}
	return v.Sign() >= 0 && v.Cmp(pow2[w]) < 0
}

// Wrap1 is Wrap for an argument that is at most one period outside the range.
func Wrap1(t *Term, w int, signed bool) *Term {
	r := Wrap(t, w, signed)
	if r.Op == OWrap && r.Args[0] == t {
		r.One = true
	}
	return r
}

// Wrap reduces a mathematical integer to a w-bit (un)signed machine integer.
func Wrap(t *Term, w int, signed bool) *Term {
	if t.IsConst() {
		if t.Big == nil {
			switch {
			case w == 64 && signed:
				return t
			case w == 64 && !signed && t.K >= 0:
				return t
			}
		}
		return KBig(wrapBig(t.BigVal(), w, signed))
	}
	if t.Op == OWrap && int(t.W) == w && t.Signed == signed {
		return t
	}
	if t.Op == OIte && t.Args[1].IsConst() && t.Args[2].IsConst() {
		return Ite(t.Args[0], Wrap(t.Args[1], w, signed), Wrap(t.Args[2], w, signed))
	}
	n := mk(OWrap, SInt, t)
	n.W, n.Signed = uint8(w), signed
	return n
}

func Sat64(t *Term) *Term {
	if t.IsConst() {
		v := t.BigVal()
		if v.Cmp(pow2[63]) >= 0 {
			return K(math.MaxInt64)
		}
		if v.Cmp(new(big.Int).Neg(pow2[63])) < 0 {
			return K(math.MinInt64)
		}
		return KBig(v)
	}
	return mk(OSat, SInt, t)
}

// ---- floats ----

func FBin(op Op, a, b *Term) *Term {
	if a.IsConst() && b.IsConst() {
		var r float64
		switch op {
		case OFAdd:
			r = a.F + b.F
		case OFSub:
			r = a.F - b.F
		case OFMul:
			r = a.F * b.F
		case OFDiv:
			r = a.F / b.F
		}
		if a.Sort == SF32 {
			switch op {
			case OFAdd:
				r = float64(float32(a.F) + float32(b.F))
			case OFSub:
				r = float64(float32(a.F) - float32(b.F))
			case OFMul:
				r = float64(float32(a.F) * float32(b.F))
			case OFDiv:
				r = float64(float32(a.F) / float32(b.F))
			}
		}
		return KF(r, a.Sort)
	}
	return mk(op, a.Sort, a, b)
}

func FNeg(a *Term) *Term {
	if a.IsConst() {
		return KF(-a.F, a.Sort)
	}
	return mk(OFNeg, a.Sort, a)
}

func FCmp(op Op, a, b *Term) *Term {
	if a.IsConst() && b.IsConst() {
		switch op {
		case OFEq:
			return B(a.F == b.F)
		case OFLt:
			return B(a.F < b.F)
		case OFLe:
			return B(a.F <= b.F)
		}
	}
	return mk(op, SBool, a, b)
}

func FIsNaN(a *Term) *Term {
	if a.IsConst() {
		return B(a.F != a.F)
	}
	return mk(OFIsNaN, SBool, a)
}

func I2F(a *Term, s Sort, unsigned bool) *Term {
	if a.IsConst() {
		f, _ := new(big.Float).SetInt(a.BigVal()).Float64()
		if s == SF32 {
			f32, _ := new(big.Float).SetInt(a.BigVal()).Float32()
			f = float64(f32)
		}
		return KF(f, s)
	}
	if unsigned {
		return mk(OU2F, s, a)
	}
	return mk(OI2F, s, a)
}

func F2F(a *Term, s Sort) *Term {
	if a.Sort == s {
		return a
	}
	if a.IsConst() {
		return KF(a.F, s)
	}
	return mk(OF2F, s, a)
}

func F2I(a *Term, w int, signed bool) *Term {
	if a.IsConst() && !math.IsNaN(a.F) && !math.IsInf(a.F, 0) {
		bf := new(big.Float).SetFloat64(math.Trunc(a.F))
		bi, _ := bf.Int(nil)
		return KBig(wrapBig(bi, w, signed))
	}
	n := mk(OF2I, SInt, a)
	n.W, n.Signed = uint8(w), signed
	return n
}

// ---- printing ----

func smtInt(b *big.Int) string {
	if b.Sign() < 0 {
		return "(- " + new(big.Int).Neg(b).String() + ")"
	}
	return b.String()
}

func smtFloat(f float64, s Sort) string {
	if s == SF32 {
		bits := math.Float32bits(float32(f))
		return fmt.Sprintf("(fp #b%01b #b%08b #b%023b)", bits>>31, (bits>>23)&0xff, bits&0x7fffff)
	}
	bits := math.Float64bits(f)
	return fmt.Sprintf("(fp #b%01b #b%011b #b%052b)", bits>>63, (bits>>52)&0x7ff, bits&0xfffffffffffff)
}

func fpDims(s Sort) string {
	if s == SF32 {
		return "8 24"
	}
	return "11 53"
}

// smtNode prints one node given the printed forms of its children.
func (t *Term) smtNode(a []string) string {
	switch t.Op {
	case OConst:
		switch t.Sort {
		case SBool:
			if t.K != 0 {
				return "true"
			}
			return "false"
		case SInt:
			if t.Big != nil {
				return smtInt(t.Big)
			}
			if t.K < 0 {
				return smtInt(big.NewInt(t.K))
			}
			return fmt.Sprint(t.K)
		default:
			return smtFloat(t.F, t.Sort)
		}
	case OVar:
		return t.Name
	case OAdd:
		return "(+ " + a[0] + " " + a[1] + ")"
	case OSub:
		return "(- " + a[0] + " " + a[1] + ")"
	case OMul:
		return "(* " + a[0] + " " + a[1] + ")"
	case ODiv:
		// truncated towards zero: sign-adjust SMT-LIB's floor-style div
		return fmt.Sprintf("(let ((dx %s) (dy %s)) (ite (>= dx 0) (div dx dy) (- (div (- dx) dy))))", a[0], a[1])
	case ORem:
		return fmt.Sprintf("(let ((dx %s) (dy %s)) (ite (>= dx 0) (mod dx dy) (- (mod (- dx) dy))))", a[0], a[1])
	case OIte:
		return "(ite " + a[0] + " " + a[1] + " " + a[2] + ")"
	case OEq:
		return "(= " + a[0] + " " + a[1] + ")"
	case OLt:
		return "(< " + a[0] + " " + a[1] + ")"
	case OLe:
		return "(<= " + a[0] + " " + a[1] + ")"
	case OAnd:
		return "(and " + a[0] + " " + a[1] + ")"
	case OOr:
		return "(or " + a[0] + " " + a[1] + ")"
	case ONot:
		return "(not " + a[0] + ")"
	case OWrap:
		w := int(t.W)
		if t.One {
			if t.Signed {
				return fmt.Sprintf("(let ((w %s)) (ite (>= w %s) (- w %s) (ite (< w (- %s)) (+ w %s) w)))", a[0], pow2[w-1], pow2[w], pow2[w-1], pow2[w])
			}
			return fmt.Sprintf("(let ((w %s)) (ite (>= w %s) (- w %s) (ite (< w 0) (+ w %s) w)))", a[0], pow2[w], pow2[w], pow2[w])
		}
		if t.Signed {
			return fmt.Sprintf("(- (mod (+ %s %s) %s) %s)", a[0], pow2[w-1], pow2[w], pow2[w-1])
		}
		return fmt.Sprintf("(mod %s %s)", a[0], pow2[w])
	case OSat:
		return fmt.Sprintf("(let ((w %s)) (ite (>= w %s) %s (ite (< w (- %s)) (- %s) w)))", a[0], pow2[63], new(big.Int).Sub(pow2[63], big.NewInt(1)), pow2[63], pow2[63])
	case OFAdd:
		return "(fp.add RNE " + a[0] + " " + a[1] + ")"
	case OFSub:
		return "(fp.sub RNE " + a[0] + " " + a[1] + ")"
	case OFMul:
		return "(fp.mul RNE " + a[0] + " " + a[1] + ")"
	case OFDiv:
		return "(fp.div RNE " + a[0] + " " + a[1] + ")"
	case OFNeg:
		return "(fp.neg " + a[0] + ")"
	case OFEq:
		return "(fp.eq " + a[0] + " " + a[1] + ")"
	case OFLt:
		return "(fp.lt " + a[0] + " " + a[1] + ")"
	case OFLe:
		return "(fp.leq " + a[0] + " " + a[1] + ")"
	case OFIsNaN:
		return "(fp.isNaN " + a[0] + ")"
	case OI2F, OU2F:
		return "((_ to_fp " + fpDims(t.Sort) + ") RNE (to_real " + a[0] + "))"
	case OF2F:
		return "((_ to_fp " + fpDims(t.Sort) + ") RNE " + a[0] + ")"
	case OF2I:
		// real-valued truncation; caller guards range
		return fmt.Sprintf("(let ((r (fp.to_real (fp.roundToIntegral RTZ %s)))) (to_int r))", a[0])
	}
	panic(fmt.Sprintf("smtNode op %d", t.Op))
}

// SMTTree prints the whole term as a tree (debugging / small terms only).
func (t *Term) SMTTree() string {
	a := make([]string, len(t.Args))
	for i, x := range t.Args {
		a[i] = x.SMTTree()
	}
	return t.smtNode(a)
}

func (t *Term) String() string {
	s := t.SMTTree()
	if len(s) > 200 {
		s = s[:200] + "…"
	}
	return s
}

// Vars collects the free variables of t into out.
func (t *Term) Vars(seen map[*Term]bool, out *[]*Term) {
	if seen[t] {
		return
	}
	seen[t] = true
	if t.Op == OVar {
		*out = append(*out, t)
		return
	}
	for _, a := range t.Args {
		a.Vars(seen, out)
	}
}

// Eval evaluates t under a model (var name -> value). Ints as *big.Int, bools as bool, floats as float64.
func (t *Term) Eval(m map[string]interface{}, memo map[*Term]interface{}) interface{} {
	if v, ok := memo[t]; ok {
		return v
	}
	var r interface{}
	bi := func(i int) *big.Int { return t.Args[i].Eval(m, memo).(*big.Int) }
	bo := func(i int) bool { return t.Args[i].Eval(m, memo).(bool) }
	fl := func(i int) float64 { return t.Args[i].Eval(m, memo).(float64) }
	switch t.Op {
	case OConst:
		switch t.Sort {
		case SBool:
			r = t.K != 0
		case SInt:
			r = t.BigVal()
		default:
			r = t.F
		}
	case OVar:
		v, ok := m[t.Name]
		if !ok {
			switch t.Sort {
			case SBool:
				v = false
			case SInt:
				v = big.NewInt(0)
			default:
				v = float64(0)
			}
		}
		r = v
	case OAdd:
		r = new(big.Int).Add(bi(0), bi(1))
	case OSub:
		r = new(big.Int).Sub(bi(0), bi(1))
	case OMul:
		r = new(big.Int).Mul(bi(0), bi(1))
	case ODiv:
		d := bi(1)
		if d.Sign() == 0 {
			r = big.NewInt(0)
		} else {
			r = new(big.Int).Quo(bi(0), d)
		}
	case ORem:
		d := bi(1)
		if d.Sign() == 0 {
			r = big.NewInt(0)
		} else {
			r = new(big.Int).Rem(bi(0), d)
		}
	case OIte:
		if bo(0) {
			r = t.Args[1].Eval(m, memo)
		} else {
			r = t.Args[2].Eval(m, memo)
		}
	case OEq:
		a, b := t.Args[0].Eval(m, memo), t.Args[1].Eval(m, memo)
		switch x := a.(type) {
		case *big.Int:
			r = x.Cmp(b.(*big.Int)) == 0
		case bool:
			r = x == b.(bool)
		case float64:
			r = x == b.(float64)
		}
	case OLt:
		r = bi(0).Cmp(bi(1)) < 0
	case OLe:
		r = bi(0).Cmp(bi(1)) <= 0
	case OAnd:
		r = bo(0) && bo(1)
	case OOr:
		r = bo(0) || bo(1)
	case ONot:
		r = !bo(0)
	case OWrap:
		r = wrapBig(bi(0), int(t.W), t.Signed)
	case OSat:
		v := bi(0)
		if v.Cmp(pow2[63]) >= 0 {
			r = big.NewInt(math.MaxInt64)
		} else if v.Cmp(new(big.Int).Neg(pow2[63])) < 0 {
			r = big.NewInt(math.MinInt64)
		} else {
			r = v
		}
	case OFAdd, OFSub, OFMul, OFDiv:
		a, b := KF(fl(0), t.Sort), KF(fl(1), t.Sort)
		r = FBin(t.Op, a, b).F
	case OFNeg:
		r = -fl(0)
	case OFEq:
		r = fl(0) == fl(1)
	case OFLt:
		r = fl(0) < fl(1)
	case OFLe:
		r = fl(0) <= fl(1)
	case OFIsNaN:
		r = math.IsNaN(fl(0))
	case OI2F, OU2F:
		r = I2F(KBig(bi(0)), t.Sort, t.Op == OU2F).F
	case OF2F:
		r = KF(fl(0), t.Sort).F
	case OF2I:
		r = F2I(KF(fl(0), SF64), int(t.W), t.Signed).BigVal()
	default:
		panic("eval op")
	}
	memo[t] = r
	return r
}

func describeModel(m map[string]interface{}) string {
	var parts []string
	for k, v := range m {
		parts = append(parts, fmt.Sprintf("%s=%v", k, v))
	}
	return strings.Join(parts, " ")
}
