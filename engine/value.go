package main

import (
	"fmt"
	"go/types"
	"strings"

	"golang.org/x/tools/go/ssa"
)

// Value is one of: *Term (bool/int/float scalar), Str, *Cell (pointer), *StructObj,
// *Array, Slice, *Map, Iface, *Closure, *Chan, Tuple, *mapIter, *strIter, nil.
type Value interface{}

// Str is a Go string: concrete, an "atom" (arbitrary string whose content is never
// inspected; an Int rank), or "bytes" (concrete length, symbolic bytes).
type Str struct {
	conc  string
	atom  *Term
	bytes []*Term
	isB   bool
	built bool // an opaque stand-in for a string BUILT from arbitrary names (strings.Join / concatenation of atoms): fine as text, not comparable
}

func (s Str) isConc() bool { return s.atom == nil && !s.isB }

type Cell struct {
	v    Value
	meta *cellMeta
}

type StructObj struct {
	fields []*Cell
	typ    types.Type
}

type Array struct{ elems []*Cell }

type Slice struct {
	arr           *Array
	off, len, cap int
}

type entry struct {
	k, v    Value
	deleted bool
}

type Map struct {
	ents []*entry
	cell Cell // race-detection location for the map as a whole
}

type Iface struct {
	t types.Type
	v Value
}

type Closure struct {
	fn   *ssa.Function
	free []Value
}

type Tuple []Value

type mapIter struct {
	snap []*entry
	pos  int
}

type strIter struct {
	s   Str
	pos int
}

// Opaque engine-side types for error values produced by stubs.
var opaqueErrType = types.NewNamed(types.NewTypeName(0, nil, "opaqueError", nil), types.NewStruct(nil, nil), nil)

type opaqueErr struct {
	name string
	code *Term // gRPC status code when produced by status.Error*, else nil
}

func mkOpaqueErr(name string, code *Term) Iface {
	return Iface{t: opaqueErrType, v: &opaqueErr{name: name, code: code}}
}

func isNilValue(v Value) bool {
	switch x := v.(type) {
	case nil:
		return true
	case *Cell:
		return x == nil
	case *Map:
		return x == nil
	case *Closure:
		return x == nil
	case *Chan:
		return x == nil
	case Slice:
		return x.arr == nil
	case Iface:
		return x.t == nil
	}
	return false
}

func copyVal(v Value) Value {
	switch x := v.(type) {
	case *StructObj:
		n := &StructObj{typ: x.typ, fields: make([]*Cell, len(x.fields))}
		for i, f := range x.fields {
			n.fields[i] = &Cell{v: copyVal(f.v)}
		}
		return n
	case *Array:
		n := &Array{elems: make([]*Cell, len(x.elems))}
		for i, f := range x.elems {
			n.elems[i] = &Cell{v: copyVal(f.v)}
		}
		return n
	}
	return v
}

func (e *Exec) zero(t types.Type) Value {
	switch u := t.Underlying().(type) {
	case *types.Basic:
		switch {
		case u.Info()&types.IsBoolean != 0:
			return tFalse
		case u.Info()&types.IsString != 0:
			return Str{}
		case u.Info()&types.IsInteger != 0:
			return K(0)
		case u.Kind() == types.UnsafePointer:
			return (*Cell)(nil)
		case u.Kind() == types.Float32:
			return KF(0, SF32)
		case u.Info()&types.IsFloat != 0:
			return KF(0, SF64)
		case u.Kind() == types.UntypedNil:
			return nil
		}
		panic(unsupported("zero of basic type " + t.String()))
	case *types.Struct:
		so := &StructObj{typ: t, fields: make([]*Cell, u.NumFields())}
		for i := 0; i < u.NumFields(); i++ {
			so.fields[i] = &Cell{v: e.zero(u.Field(i).Type())}
		}
		return so
	case *types.Array:
		a := &Array{elems: make([]*Cell, u.Len())}
		for i := range a.elems {
			a.elems[i] = &Cell{v: e.zero(u.Elem())}
		}
		return a
	case *types.Pointer:
		return (*Cell)(nil)
	case *types.Slice:
		return Slice{}
	case *types.Map:
		return (*Map)(nil)
	case *types.Interface:
		return Iface{}
	case *types.Signature:
		return (*Closure)(nil)
	case *types.Chan:
		return (*Chan)(nil)
	case *types.Tuple:
		tu := make(Tuple, u.Len())
		for i := 0; i < u.Len(); i++ {
			tu[i] = e.zero(u.At(i).Type())
		}
		return tu
	}
	panic(unsupported("zero of " + t.String()))
}

func sortOf(t types.Type) Sort {
	if b, ok := t.Underlying().(*types.Basic); ok {
		switch {
		case b.Info()&types.IsBoolean != 0:
			return SBool
		case b.Kind() == types.Float32:
			return SF32
		case b.Info()&types.IsFloat != 0:
			return SF64
		}
	}
	return SInt
}

// intType returns width and signedness of an integer type.
func intType(t types.Type) (w int, signed bool, ok bool) {
	b, isB := t.Underlying().(*types.Basic)
	if !isB || b.Info()&types.IsInteger == 0 {
		return 0, false, false
	}
	switch b.Kind() {
	case types.Int8:
		return 8, true, true
	case types.Int16:
		return 16, true, true
	case types.Int32:
		return 32, true, true
	case types.Int64, types.Int, types.UntypedInt, types.UntypedRune:
		return 64, true, true
	case types.Uint8:
		return 8, false, true
	case types.Uint16:
		return 16, false, true
	case types.Uint32:
		return 32, false, true
	case types.Uint64, types.Uint, types.Uintptr:
		return 64, false, true
	}
	return 0, false, false
}

func (e *Exec) showVal(v Value) string {
	switch x := v.(type) {
	case *Term:
		return x.String()
	case Str:
		switch {
		case x.atom != nil:
			return "atom(" + x.atom.String() + ")"
		case x.isB:
			return fmt.Sprintf("bytes[%d]", len(x.bytes))
		}
		return fmt.Sprintf("%q", x.conc)
	case Iface:
		if x.t == nil {
			return "nil"
		}
		if oe, ok := x.v.(*opaqueErr); ok {
			return "error(" + oe.name + ")"
		}
		return x.t.String() + ":" + e.showVal(x.v)
	case *Cell:
		if x == nil {
			return "nil"
		}
		return "&" + strings.TrimPrefix(fmt.Sprintf("%T", x.v), "*main.")
	}
	return fmt.Sprintf("%T", v)
}
