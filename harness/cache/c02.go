package cache

// C02 — the cache keeps the newest value per leaf (timestamp discipline).

import (
	"time"

	"google.golang.org/protobuf/proto"
	zz "github.com/openconfig/gnmi/zzverif"

	pb "github.com/openconfig/gnmi/proto/gnmi"
)

// c02Pre installs an arbitrary pre-state directly: 0..P stored leaves with symbolic path, timestamp
// and value, and a symbolic "latest accepted timestamp" of the target.
func c02Pre(h *zz.H, c *Cache, P int) (leaves []vLeaf, latest int64) {
	t := c.GetTarget(vDev)
	n := h.Range("pre_n", 0, P)
	for i := 0; i < n; i++ {
		idx := vIdx(h, "pre", 1, h.Param("L", 2))
		h.Assume(idx[0] != "meta")
		ts := h.Int64("pre_ts")
		noti := vUpdate(vDev, idx, vStyle(h, "pre_style", idx, h.Param("STYLES", 1)), ts, vValue(h, "pre_v", h.Param("ARMS", 2)))
		if err := t.t.Add(idx, noti); err != nil {
			h.Assume(false) // not a prefix-free state
		}
		// distinct stored paths
		for _, o := range leaves {
			h.Assume(!vPathEq(o.p, idx))
		}
		leaves = append(leaves, vLeaf{idx, noti})
	}
	latest = h.Int64("latest")
	h.Assume(latest >= 0 && latest < 1<<62)
	if latest != 0 {
		t.ts = T(latest)
	}
	return
}

// VerifC02_UpdateStep: one update to an arbitrary invariant-satisfying state follows the per-leaf rule.
func VerifC02_UpdateStep(h *zz.H) {
	thr := h.Int64("threshold")
	h.Assume(thr >= 0 && thr < 1<<61)
	opts := []Option{WithFutureThreshold(time.Duration(thr))}
	if h.Range("eventdriven", 0, 1) == 0 {
		opts = append(opts, DisableEventDrivenEmulation())
	}
	c := New([]string{vDev}, opts...)
	now := vSetClock(h, "now")
	pre, latest := c02Pre(h, c, h.Param("P", 2))

	idx := vIdx(h, "u", 1, h.Param("L", 2))
	h.Assume(idx[0] != "meta")
	ts := h.Int64("u_ts")
	if thr > 0 {
		h.Assume(ts >= 0 && ts < 1<<62) // threshold arithmetic: device timestamps are ns since the epoch
		for _, l := range pre {
			h.Assume(l.n.Timestamp >= 0 && l.n.Timestamp < 1<<62)
		}
	}
	style := vStyle(h, "u_style", idx, h.Param("STYLES", 1))
	n := vUpdate(vDev, idx, style, ts, vValue(h, "u_v", h.Param("ARMS", 2)))

	var old *pb.Notification
	for _, l := range pre {
		if len(l.p) == len(idx) && vPathEq(l.p, idx) { // forks: which stored leaf is addressed
			old = l.n
		}
	}
	// D12 (latest timestamp only tracked for update[0].path.elem): the threshold rule is judged
	// against the state's latest timestamp, which the step must also maintain
	err := c.GnmiUpdate(n)
	got := vStored(c, vDev, idx)
	h.Trace("update", err == nil, err == ErrStale, err == ErrFuture)
	switch {
	case old == nil:
		// a new leaf, or a path crossing a stored leaf / targeting a branch
		if err == nil {
			h.Assert(got == n, "C02: an accepted update to a new leaf is stored")
		} else {
			h.Assert(err != ErrStale && err != ErrFuture, "C02: a new leaf is never stale or future")
			h.Assert(got == nil, "C02: a rejected update stores nothing")
		}
	case ts < old.Timestamp:
		h.Assert(err == ErrStale, "C02: an update older than the stored one is rejected as stale")
		h.Assert(got == old, "C02: a stale update changes nothing")
	case ts == old.Timestamp && proto.Equal(old, n):
		h.Assert(err == ErrStale, "C02: an update identical to the stored one is rejected as stale")
		h.Assert(got == old, "C02: a stale update changes nothing")
	case ts == old.Timestamp:
		h.Assert(err == nil, "C02: a different value carrying the same timestamp is accepted")
		h.Assert(got == n, "C02: a different value carrying the same timestamp replaces the stored one")
	case thr > 0 && ts-now > thr && latest > 0 && ts-latest > thr:
		h.Assert(err == ErrFuture, "C02: an update further ahead of clock and latest timestamp than the threshold is rejected")
		h.Assert(got == old, "C02: a future update changes nothing")
	default:
		h.Assert(err == nil, "C02: a newer update is accepted")
		h.Assert(got == n, "C02: a newer update replaces the stored one")
	}
	// every other stored leaf is untouched
	for _, l := range pre {
		if l.n != old {
			h.Assert(vStored(c, vDev, l.p) == l.n, "C02: an update never changes another leaf")
		}
	}
	// the target's latest accepted timestamp is maintained (needed by the threshold rule of later steps)
	if err == nil {
		h.Known("D12-latest-timestamp-only-from-path-elem", style == 2 || style == 3 || (style == 1 && len(idx) == 1) || (style == 4 && len(idx) == 1), "latest accepted timestamp")
		lt := c.GetTarget(vDev).ts
		want := latest
		if ts > want {
			want = ts
		}
		if want > 0 {
			h.Assert(lt.UnixNano() == want, "C02: the target's latest accepted timestamp is the greatest accepted one")
		}
	}
}

// VerifC02_DeleteStep: a delete at time T removes exactly the matching leaves whose stored timestamp is older.
func VerifC02_DeleteStep(h *zz.H) {
	c := New([]string{vDev})
	vSetClock(h, "now")
	pre, _ := c02Pre(h, c, h.Param("P", 2))
	q := vIdx(h, "d", 1, h.Param("L", 2)+1)
	h.Assume(q[0] != "meta")
	T := h.Int64("d_ts")
	style := vStyle(h, "d_style", q, h.Param("DSTYLES", 1))
	err := c.GnmiUpdate(vDelete(vDev, q, style, T))
	h.Assert(err == nil, "C02: a delete is accepted")
	for _, l := range pre {
		gone := zz.And(vMatch(q, l.p), l.n.Timestamp < T)
		got := vStored(c, vDev, l.p)
		h.Assert((got == nil) == gone, "C02: a delete at T removes exactly the matching leaves with an older timestamp")
		if got != nil {
			h.Assert(got == l.n, "C02: a delete never changes a leaf it keeps")
		}
	}
	h.Trace("left", len(vDataLeaves(c, vDev)))
}

type c02Ref struct {
	p    []string
	ts   int64
	n    *pb.Notification
	live bool
}

// VerifC02_History: K notifications from the empty cache against the per-leaf reference model.
func VerifC02_History(h *zz.H) {
	c := New([]string{vDev})
	vSetClock(h, "now")
	var ref []*c02Ref
	K := h.Param("K", 3)
	for k := 0; k < K; k++ {
		if h.Range("op", 0, 1) == 0 {
			idx := vIdx(h, "u", 1, h.Param("L", 2))
			h.Assume(idx[0] != "meta")
			ts := h.Int64("ts")
			n := vUpdate(vDev, idx, vStyle(h, "style", idx, h.Param("STYLES", 1)), ts, vValue(h, "v", h.Param("ARMS", 1)))
			err := c.GnmiUpdate(n)
			// reference: find the live entry with this path (forks)
			var cur *c02Ref
			blocked := false
			for _, r := range ref {
				if !r.live {
					continue
				}
				if len(r.p) == len(idx) && vPathEq(r.p, idx) {
					cur = r
				} else if len(r.p) < len(idx) && vPrefixEq(r.p, idx, len(r.p)) {
					blocked = true
				} else if len(idx) < len(r.p) && vPrefixEq(r.p, idx, len(idx)) {
					blocked = true
				}
			}
			switch {
			case cur == nil && blocked:
				h.Assert(err != nil && err != ErrStale && err != ErrFuture, "C02: a path crossing a stored leaf is refused")
			case cur == nil:
				h.Assert(err == nil, "C02: a new leaf is accepted")
				ref = append(ref, &c02Ref{idx, ts, n, true})
			case ts < cur.ts || (ts == cur.ts && proto.Equal(cur.n, n)):
				h.Assert(err == ErrStale, "C02: older or identical is stale")
			default:
				h.Assert(err == nil, "C02: newer or different-at-same-timestamp is accepted")
				cur.ts, cur.n = ts, n
			}
		} else {
			q := vIdx(h, "d", 1, h.Param("L", 2)+1)
			h.Assume(q[0] != "meta")
			T := h.Int64("dts")
			h.Assert(c.GnmiUpdate(vDelete(vDev, q, 0, T)) == nil, "C02: delete accepted")
			for _, r := range ref {
				if r.live && vMatch(q, r.p) && r.ts < T { // forks
					r.live = false
				}
			}
		}
		live := 0
		for _, r := range ref {
			got := vStored(c, vDev, r.p)
			if r.live {
				live++
				h.Assert(got == r.n, "C02: every leaf holds the accepted update with the greatest timestamp since its last delete")
			}
		}
		h.Assert(len(vDataLeaves(c, vDev)) == live, "C02: no other leaf exists")
	}
}
