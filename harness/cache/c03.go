package cache

// C03 — the cache's change feed reproduces the cache exactly.

import (
	"google.golang.org/protobuf/proto"
	"github.com/openconfig/gnmi/ctree"
	"github.com/openconfig/gnmi/path"
	zz "github.com/openconfig/gnmi/zzverif"

	pb "github.com/openconfig/gnmi/proto/gnmi"
)

type c03Ent struct {
	idx    []string // index path incl. target, as a feed consumer computes it
	h      *ctree.Leaf
	atCall *pb.Notification
	live   bool
}

type c03Replayer struct {
	h    *zz.H
	c    *Cache // when set: at callback time the tree already holds the announced state (ordering lemma L1 of C04)
	ents []*c03Ent
	log  []*pb.Notification
}

// stored returns the leaf handle the cache holds at index path idx (target first), nil if none.
func (r *c03Replayer) stored(idx []string) *ctree.Leaf {
	if r.c == nil || len(idx) == 0 {
		return nil
	}
	t := r.c.targets[idx[0]]
	if t == nil {
		return nil
	}
	return t.t.GetLeaf(idx[1:])
}

func c03IsPrefix(p, q []string) bool { // p is a prefix of q (or equal)
	if len(p) > len(q) {
		return false
	}
	for i := range p {
		if p[i] != q[i] {
			return false
		}
	}
	return true
}

// apply folds one feed item into the replayed state: an update sets a leaf, an atomic update
// replaces its subtree as one unit, a delete removes what it matches.
func (r *c03Replayer) apply(l *ctree.Leaf) {
	n, ok := l.Value().(*pb.Notification)
	r.h.Assert(ok && n != nil, "C03: every feed item carries a notification")
	if !ok || n == nil {
		return
	}
	r.log = append(r.log, n)
	pre := path.ToStrings(n.Prefix, true)
	switch {
	case len(n.Update) > 0 && n.Atomic:
		for _, e := range r.ents {
			if e.live && c03IsPrefix(pre, e.idx) {
				e.live = false
			}
		}
		if r.c != nil {
			r.h.Assert(r.stored(pre) == l, "C03: when an atomic update is announced the cache already holds it under that handle")
		}
		r.ents = append(r.ents, &c03Ent{pre, l, n, true})
	case len(n.Update) > 0:
		r.h.Assert(len(n.Update) == 1 && len(n.Delete) == 0, "C03: a non-atomic feed item carries exactly one update")
		idx := append(append([]string{}, pre...), path.ToStrings(n.Update[0].Path, false)...)
		for _, e := range r.ents {
			if e.live && len(e.idx) == len(idx) && c03IsPrefix(e.idx, idx) {
				e.live = false
			}
		}
		if r.c != nil {
			r.h.Assert(r.stored(idx) == l, "C03: when an update is announced the cache already holds it under that handle")
		}
		r.ents = append(r.ents, &c03Ent{idx, l, n, true})
	case len(n.Delete) > 0:
		r.h.Assert(len(n.Delete) == 1, "C03: a delete feed item carries exactly one delete")
		q := append(append([]string{}, pre...), path.ToStrings(n.Delete[0], false)...)
		for _, e := range r.ents {
			if e.live && vMatch(q, e.idx) {
				e.live = false
				// (a whole-target delete announced while the target still exists is Reset's
				// announcement for a root literally named "": it covers more than that root, the
				// remaining roots follow at once and the replay converges - checked by agrees)
				if r.c != nil && !(len(q) == 2 && q[1] == "*" && r.c.targets[q[0]] != nil) {
					r.h.Assert(r.stored(e.idx) == nil, "C03: when a delete is announced the cache no longer holds what it removes")
				}
			}
		}
	default:
		r.h.Fail("C03: empty notification in the feed")
	}
}

// agrees: the replayed state equals what the cache returns to queries.
func (r *c03Replayer) agrees(c *Cache) {
	type got struct {
		idx []string
		l   *ctree.Leaf
	}
	var cur []got
	for name, t := range c.targets {
		t.t.Walk(func(p []string, l *ctree.Leaf, v interface{}) error {
			if len(p) > 0 && p[0] == "meta" {
				return nil
			}
			cur = append(cur, got{append([]string{name}, p...), l})
			return nil
		})
	}
	live := 0
	for _, e := range r.ents {
		if !e.live {
			continue
		}
		live++
		found := false
		for _, g := range cur {
			if len(g.idx) == len(e.idx) && c03IsPrefix(g.idx, e.idx) {
				found = true
				r.h.Assert(g.l == e.h, "C03: the replayed leaf is the cache's leaf (same handle)")
				now := g.l.Value().(*pb.Notification)
				r.h.Assert(now.Timestamp >= e.atCall.Timestamp, "C03: a leaf never goes back in time after it was announced")
				if !now.Atomic && now != e.atCall {
					// only a suppressed (value-equal) later update may differ from what was announced
					// structural equality of the values (not value.Equal, the function under test)
					r.h.Assert(proto.Equal(now.Update[0].Val, e.atCall.Update[0].Val), "C03: an update is withheld from the feed only when it left the value unchanged")
				}
			}
		}
		r.h.Assert(found, "C03: every replayed leaf is in the cache (no extra leaf after replay)")
	}
	r.h.Assert(live == len(cur), "C03: every cache leaf is in the replayed state (no missing leaf after replay)")
}

type c03Gen struct {
	h      *zz.H
	shared *pb.Path // a prefix object reused between notifications
	L      int
}

// prefixFor returns a prefix for container elements pre (may be empty): either the shared object
// (when it fits) or a fresh one; the Elem slice may have one spare slot of capacity.
func (g *c03Gen) prefixFor(pre []string) *pb.Path {
	h := g.h
	if h.Param("ALIAS", 0) == 1 && g.shared != nil && len(g.shared.Elem) == len(pre) && h.Range("share", 0, 1) == 1 {
		same := true
		for i, e := range g.shared.Elem {
			same = same && e.Name == pre[i] // forks
		}
		if same {
			return g.shared
		}
	}
	spare := 0
	if h.Param("ALIAS", 0) == 1 {
		spare = h.Range("spare", 0, 1)
	}
	p := &pb.Path{Target: vDev}
	if len(pre) > 0 {
		p.Elem = make([]*pb.PathElem, 0, len(pre)+spare)
		for _, n := range pre {
			p.Elem = append(p.Elem, &pb.PathElem{Name: n})
		}
	}
	if g.shared == nil {
		g.shared = p
	}
	return p
}

func (g *c03Gen) update(name string) *pb.Notification {
	h := g.h
	idx := vIdx(h, name, 1, g.L)
	h.Assume(idx[0] != "meta")
	for _, e := range idx {
		h.Assume(e != "*") // a target does not send the wildcard as an element name (stated bound)
	}
	k := 0
	if len(idx) > 1 {
		k = h.Range(name+"_split", 0, 1)
	}
	n := &pb.Notification{Timestamp: h.Int64(name + "_ts"), Prefix: g.prefixFor(idx[:k])}
	n.Update = []*pb.Update{{Path: &pb.Path{Elem: vElems(idx[k:])}, Val: vValue(h, name+"_v", h.Param("ARMS", 1))}}
	return n
}

func (g *c03Gen) delete(name string) *pb.Notification {
	h := g.h
	q := vIdx(h, name, 1, g.L+1)
	h.Assume(q[0] != "meta")
	return &pb.Notification{Timestamp: h.Int64(name + "_ts"), Prefix: &pb.Path{Target: vDev}, Delete: []*pb.Path{{Elem: vElems(q)}}}
}

// VerifC03_Replay: histories of K operations; after each one the replayed feed equals the cache.
func VerifC03_Replay(h *zz.H) {
	var opts []Option
	if h.Range("eventdriven", 0, 1) == 0 {
		opts = append(opts, DisableEventDrivenEmulation())
	}
	c := New([]string{vDev}, opts...)
	vSetClock(h, "now")
	r := &c03Replayer{h: h, c: c}
	c.SetClient(func(l *ctree.Leaf) {
		// metadata updates are part of the feed but not of the data comparison
		if n, ok := l.Value().(*pb.Notification); ok && len(n.Update) > 0 {
			if p := path.ToStrings(n.Update[0].Path, false); len(n.Prefix.GetElem()) == 0 && len(p) > 0 && p[0] == "meta" {
				return
			}
		}
		r.apply(l)
	})
	g := &c03Gen{h: h, L: h.Param("L", 2)}
	K := h.Param("K", 2)
	for k := 0; k < K; k++ {
		mask := h.Param("OPMASK", 63)
		var ops []int
		for o := 0; o < 6; o++ {
			if mask&(1<<o) != 0 {
				ops = append(ops, o)
			}
		}
		switch ops[h.Range("op", 0, len(ops)-1)] {
		case 0:
			n := g.update("u")
			before := proto.Clone(n).(*pb.Notification)
			nfeed := len(r.log)
			err := c.GnmiUpdate(n)
			h.Assert(proto.Equal(before, n), "C03: the caller's notification is left unmodified")
			if err != nil {
				h.Assert(len(r.log) == nfeed, "C03: a rejected update is not announced")
			}
		case 1:
			n := g.delete("d")
			before := proto.Clone(n).(*pb.Notification)
			c.GnmiUpdate(n)
			h.Assert(proto.Equal(before, n), "C03: the caller's notification is left unmodified")
		case 2: // atomic container with two updates
			cont := vIdx(h, "a", 1, 1)
			h.Assume(cont[0] != "meta" && cont[0] != "*")
			n := &pb.Notification{Timestamp: h.Int64("a_ts"), Atomic: true, Prefix: g.prefixFor(cont)}
			for i := 0; i < 2; i++ {
				n.Update = append(n.Update, &pb.Update{Path: &pb.Path{Elem: vElems([]string{h.Atom("a_leaf")})}, Val: vIntVal(h.Int64("a_v"))})
			}
			nfeed := len(r.log)
			err := c.GnmiUpdate(n)
			if err == nil {
				h.Assert(len(r.log) == nfeed+1 && r.log[nfeed] == n, "C03: an atomic notification is announced as one unit, never split")
			} else {
				h.Assert(len(r.log) == nfeed, "C03: a rejected atomic notification is not announced")
			}
		case 3: // two updates and one delete in one notification
			gm := &c03Gen{h: h, L: h.Param("ML", 1)}
			// bundle shapes: 1 update + 1 delete, 2 updates, 2 updates + 1 delete
			shape := h.Range("m_shape", 0, 2)
			ups := []*pb.Notification{gm.update("m1")}
			if shape != 0 {
				ups = append(ups, gm.update("m2"))
			}
			n := &pb.Notification{Timestamp: ups[0].Timestamp, Prefix: &pb.Path{Target: vDev}}
			// fold prefix elements into the paths so that one prefix serves all of them
			for _, u := range ups {
				full := append(append([]*pb.PathElem{}, u.Prefix.Elem...), u.Update[0].Path.Elem...)
				n.Update = append(n.Update, &pb.Update{Path: &pb.Path{Elem: full}, Val: u.Update[0].Val})
			}
			if shape != 1 {
				n.Delete = gm.delete("md").Delete
			}
			before := proto.Clone(n).(*pb.Notification)
			c.GnmiUpdate(n)
			h.Assert(proto.Equal(before, n), "C03: the caller's multi-update notification is left unmodified")
		case 4:
			c.Reset(vDev)
		default:
			c.Remove(vDev)
			c.Add(vDev)
		}
		r.agrees(c)
	}
}


// c03Sig: comparable summary of a feed: kind, index, timestamp per item.
func c03Same(h *zz.H, a, b []*pb.Notification) bool {
	if len(a) != len(b) {
		return false
	}
	ok := true
	for i := range a {
		ok = zz.And(ok, proto.Equal(a[i], b[i]))
	}
	return ok
}

// VerifC03_MultiIsSequential: a notification with two updates and a delete behaves as the same
// updates then the delete applied one at a time (two caches, same symbolic inputs).
func VerifC03_MultiIsSequential(h *zz.H) {
	var opts []Option
	if h.Range("eventdriven", 0, 1) == 0 {
		opts = append(opts, DisableEventDrivenEmulation())
	}
	vSetClock(h, "now")
	ca, cb := New([]string{vDev}, opts...), New([]string{vDev}, opts...)
	var fa, fb []*pb.Notification
	ca.SetClient(func(l *ctree.Leaf) { fa = append(fa, l.Value().(*pb.Notification)) })
	cb.SetClient(func(l *ctree.Leaf) { fb = append(fb, l.Value().(*pb.Notification)) })
	g := &c03Gen{h: h, L: h.Param("L", 2)}
	// optional common pre-state
	if h.Range("pre", 0, 1) == 1 {
		p := g.update("p")
		ca.GnmiUpdate(proto.Clone(p).(*pb.Notification))
		cb.GnmiUpdate(proto.Clone(p).(*pb.Notification))
	}
	// bundle shapes: 1 update + 1 delete, 2 updates, 2 updates + 1 delete, 1 update + 2 deletes
	shape := h.Range("shape", 0, 3)
	ups := []*pb.Notification{g.update("m1")}
	if shape == 1 || shape == 2 {
		ups = append(ups, g.update("m2"))
	}
	var dels []*pb.Path
	if shape != 1 {
		dels = append(dels, g.delete("md").Delete...)
	}
	if shape == 3 {
		dels = append(dels, g.delete("md2").Delete...)
	}
	ts := h.Int64("ts")
	pre := &pb.Path{Target: vDev}
	mk := func(u *pb.Notification) *pb.Update {
		full := append(append([]*pb.PathElem{}, u.Prefix.Elem...), u.Update[0].Path.Elem...)
		return &pb.Update{Path: &pb.Path{Elem: full}, Val: u.Update[0].Val}
	}
	multi := &pb.Notification{Timestamp: ts, Prefix: pre, Delete: dels}
	for _, u := range ups {
		multi.Update = append(multi.Update, mk(u))
	}
	ca.GnmiUpdate(multi)
	for _, u := range ups {
		cb.GnmiUpdate(&pb.Notification{Timestamp: ts, Prefix: pre, Update: []*pb.Update{mk(u)}})
	}
	for _, d := range dels {
		cb.GnmiUpdate(&pb.Notification{Timestamp: ts, Prefix: pre, Delete: []*pb.Path{d}})
	}
	h.Assert(c03Same(h, fa, fb), "C03: a multi-update notification is announced as the same updates then deletes one at a time")
	la, lb := vDataLeaves(ca, vDev), vDataLeaves(cb, vDev)
	h.Assert(len(la) == len(lb), "C03: a multi-update notification stores what the sequential application stores")
	if len(la) == len(lb) {
		for _, x := range la {
			found := false
			for _, y := range lb {
				if vPathEq(x.p, y.p) { // forks
					found = true
					h.Assert(proto.Equal(x.n, y.n), "C03: multi-update and sequential application store equal leaves")
				}
			}
			h.Assert(found, "C03: multi-update and sequential application store the same paths")
		}
	}
}
