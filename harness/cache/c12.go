package cache

// C12 (cache ingest) — no well-formed notification makes the cache panic, in any cache
// state; a rejected single update/delete leaves previously stored data intact.

import (
	"github.com/openconfig/gnmi/ctree"
	zz "github.com/openconfig/gnmi/zzverif"

	pb "github.com/openconfig/gnmi/proto/gnmi"
)

// c12Path draws a decoded path: nil (if allowed), or origin/target-less path with 0..E elements
// (each with 0..1 keys) or the deprecated element form.
func c12Path(h *zz.H, name string, allowNil bool, E int) *pb.Path {
	lo := 1
	if allowNil {
		lo = 0
	}
	switch h.Range(name+"_form", lo, 2) {
	case 0:
		return nil
	case 1:
		p := &pb.Path{}
		n := h.Range(name+"_n", 0, E)
		for i := 0; i < n; i++ {
			e := &pb.PathElem{Name: h.Atom(name + "_name")}
			if h.Param("KEYS", 0) == 1 && h.Range(name+"_key", 0, 1) == 1 {
				e.Key = map[string]string{h.Atom(name + "_k"): h.Atom(name + "_kv")}
			}
			p.Elem = append(p.Elem, e)
		}
		return p
	default:
		p := &pb.Path{}
		n := h.Range(name+"_nelement", 1, E)
		for i := 0; i < n; i++ {
			p.Element = append(p.Element, h.Atom(name+"_element"))
		}
		return p
	}
}

func c12Value(h *zz.H, name string) *pb.TypedValue {
	if vk := h.Param("VK", 0); vk > 0 {
		// reduced value kinds for multi-update notifications: nil, string, double
		switch h.Range(name+"_kind", 0, vk-1) {
		case 0:
			return nil
		case 1:
			return &pb.TypedValue{Value: &pb.TypedValue_StringVal{StringVal: h.Atom(name + "_s")}}
		default:
			return &pb.TypedValue{Value: &pb.TypedValue_DoubleVal{DoubleVal: h.Float64(name + "_d")}}
		}
	}
	switch h.Range(name+"_kind", 0, 5) {
	case 0:
		return nil
	case 1:
		return &pb.TypedValue{}
	default:
		return vValue(h, name, 4)
	}
}

func c12Snapshot(c *Cache) []vLeaf {
	var r []vLeaf
	c.Query("*", []string{"*"}, func(p []string, _ *ctree.Leaf, v interface{}) error {
		r = append(r, vLeaf{append([]string{}, p...), v.(*pb.Notification)})
		return nil
	})
	return r
}

// VerifC12_CacheIngest: an arbitrary decoded notification against a cache holding 0..S leaves.
func VerifC12_CacheIngest(h *zz.H) {
	c := New([]string{vDev})
	vSetClock(h, "now")
	var feed int
	c.SetClient(func(l *ctree.Leaf) {
		feed++
		_ = l.Value().(*pb.Notification) // what every feed consumer does first
	})
	S := h.Param("S", 1)
	ns := h.Range("state_n", 0, S)
	for i := 0; i < ns; i++ {
		idx := vIdx(h, "s", 1, 2)
		h.Assume(idx[0] != "meta")
		c.GnmiUpdate(vUpdate(vDev, idx, 0, h.Int64("s_ts"), vValue(h, "s_v", 4)))
	}
	c.Sync(vDev) // post-sync: latency accounting is exercised as well
	before := c12Snapshot(c)

	E := h.Param("E", 2)
	n := &pb.Notification{Timestamp: h.Int64("ts"), Atomic: h.Range("atomic", 0, 1) == 1}
	switch h.Range("prefix_form", 0, 2) {
	case 0:
	case 1:
		n.Prefix = &pb.Path{Target: vDev}
	default:
		n.Prefix = c12Path(h, "prefix", false, E)
		n.Prefix.Target = h.Atom("target")
		n.Prefix.Origin = h.Atom("origin")
	}
	nu := h.Range("nupd", h.Param("UMIN", 0), h.Param("U", 2))
	for i := 0; i < nu; i++ {
		n.Update = append(n.Update, &pb.Update{Path: c12Path(h, "upd", true, E), Val: c12Value(h, "val")})
	}
	nd := h.Range("ndel", h.Param("DMIN", 0), h.Param("D", 1))
	for i := 0; i < nd; i++ {
		n.Delete = append(n.Delete, c12Path(h, "del", false, E))
	}
	if h.Param("META", 0) == 1 {
		// metadata-subtree focus: the message addresses the target's "meta" subtree, and the
		// collector's periodic refresh runs afterwards
		full := joinIdx(n)
		h.Assume(len(full) > 0 && full[0] == "meta")
	}
	err := c.GnmiUpdate(n)
	h.Trace("ingest", err == nil, feed)
	h.Cover("ingest returned")
	if err != nil && nu+nd == 1 {
		after := c12Snapshot(c)
		ok := len(before) == len(after)
		if ok {
			for _, b := range before {
				found := false
				for _, a := range after {
					if a.n == b.n {
						found = true
					}
				}
				ok = ok && found
			}
		}
		h.Assert(ok, "C12: a rejected message leaves previously stored data intact")
	}
	// the cache stays usable: the collector's periodic refresh and a query
	if h.Param("META", 0) == 1 {
		c.UpdateMetadata()
		c.UpdateSize()
	}
	_ = c12Snapshot(c)
}

// joinIdx: index path (without target) of the first update or delete of n, as the property's
// "paths addressing the metadata subtree" means it.
func joinIdx(n *pb.Notification) []string {
	var r []string
	if n.Prefix != nil {
		if n.Prefix.Origin != "" {
			r = append(r, n.Prefix.Origin)
		}
		for _, e := range n.Prefix.Elem {
			r = append(r, e.Name)
		}
		if len(n.Prefix.Elem) == 0 {
			r = append(r, n.Prefix.Element...)
		}
	}
	var p *pb.Path
	if len(n.Update) > 0 {
		p = n.Update[0].Path
	} else if len(n.Delete) > 0 {
		p = n.Delete[0]
	}
	if p != nil && !n.Atomic {
		for _, e := range p.Elem {
			r = append(r, e.Name)
		}
		if len(p.Elem) == 0 {
			r = append(r, p.Element...)
		}
	}
	return r
}
