package cache

// C14 — Reset/Remove clear exactly one target and announce it; targets are isolated.

import (
	"errors"
	"sync"
	"time"

	"google.golang.org/protobuf/proto"
	"github.com/openconfig/gnmi/latency"

	"github.com/openconfig/gnmi/ctree"
	"github.com/openconfig/gnmi/metadata"
	"github.com/openconfig/gnmi/path"
	zz "github.com/openconfig/gnmi/zzverif"

	pb "github.com/openconfig/gnmi/proto/gnmi"
)

const vDevB = "devB"

type c14Snap struct {
	leaves []vLeaf
	ints   map[string]int64
	bools  map[string]bool
	has    bool
}

func c14AllLeaves(c *Cache, target string) []vLeaf {
	var r []vLeaf
	c.Query(target, []string{"*"}, func(p []string, _ *ctree.Leaf, v interface{}) error {
		r = append(r, vLeaf{append([]string{}, p...), v.(*pb.Notification)})
		return nil
	})
	return r
}

func c14Take(c *Cache, target string) c14Snap {
	s := c14Snap{ints: map[string]int64{}, bools: map[string]bool{}, has: c.HasTarget(target)}
	s.leaves = c14AllLeaves(c, target)
	if t := c.GetTarget(target); t != nil {
		for name := range metadata.TargetIntValues {
			if v, err := t.meta.GetInt(name); err == nil {
				s.ints[name] = v
			}
		}
		for name := range metadata.TargetBoolValues {
			if v, err := t.meta.GetBool(name); err == nil {
				s.bools[name] = v
			}
		}
	}
	return s
}

func c14Same(h *zz.H, a, b c14Snap) {
	h.Assert(a.has == b.has, "C14: an operation on one target never changes whether another target is known")
	h.Assert(len(a.leaves) == len(b.leaves), "C14: an operation on one target never changes the leaves stored for another")
	if len(a.leaves) == len(b.leaves) {
		for _, x := range a.leaves {
			found := false
			for _, y := range b.leaves {
				if x.n == y.n {
					found = true
				}
			}
			h.Assert(found, "C14: an operation on one target never changes what is stored for another")
		}
	}
	h.Assert(len(a.ints) == len(b.ints) && len(a.bools) == len(b.bools), "C14: metadata entries of another target unchanged")
	for k, v := range a.ints {
		h.Assert(b.ints[k] == v, "C14: metadata counters of another target unchanged")
	}
	for k, v := range a.bools {
		h.Assert(b.bools[k] == v, "C14: metadata flags of another target unchanged")
	}
}

func c14Populate(h *zz.H, c *Cache, target, name string, n int) {
	k := h.Range(name+"_n", 0, n)
	for i := 0; i < k; i++ {
		idx := vIdx(h, name, 1, 2)
		h.Assume(idx[0] != "meta" && idx[0] != "*")
		c.GnmiUpdate(vUpdate(target, idx, 0, h.Int64(name+"_ts"), vIntVal(h.Int64(name+"_v"))))
	}
	switch h.Range(name+"_life", 0, 2) {
	case 1:
		c.Sync(target)
	case 2:
		c.Connect(target)
	}
}

// VerifC14_Frame: any operation addressed to target A leaves everything stored or reported for B unchanged.
func VerifC14_Frame(h *zz.H) {
	c := New([]string{vDev, vDevB})
	vSetClock(h, "now")
	var feedB int
	c.SetClient(func(l *ctree.Leaf) {
		if n, ok := l.Value().(*pb.Notification); ok && n.GetPrefix().GetTarget() == vDevB {
			feedB++
		}
	})
	N := h.Param("N", 2)
	c14Populate(h, c, vDev, "a", N)
	c14Populate(h, c, vDevB, "b", N)
	before := c14Take(c, vDevB)
	feedB = 0
	switch h.Range("op", 0, 8) {
	case 0:
		idx := vIdx(h, "u", 1, 2)
		c.GnmiUpdate(vUpdate(vDev, idx, vStyle(h, "style", idx, vStyles), h.Int64("u_ts"), vIntVal(h.Int64("u_v"))))
	case 1:
		q := vIdx(h, "d", 1, 3)
		c.GnmiUpdate(vDelete(vDev, q, 0, h.Int64("d_ts")))
	case 2:
		c.GnmiUpdate(vDelete(vDev, []string{"*"}, 0, h.Int64("d_ts")))
	case 3:
		c.Sync(vDev)
	case 4:
		c.Connect(vDev)
	case 5:
		c.ConnectError(vDev, errors.New("x"))
	case 6:
		c.Reset(vDev)
	case 7:
		c.Remove(vDev)
	default:
		c.Remove(vDev)
		c.Add(vDev)
	}
	c14Same(h, before, c14Take(c, vDevB))
	h.Assert(feedB == 0, "C14: an operation on one target announces nothing for another")
}

// VerifC14_Reset: Reset removes every non-metadata leaf, announces deletes covering them, and
// returns the metadata to the initial values.
func VerifC14_Reset(h *zz.H) {
	c := New([]string{vDev, vDevB})
	vSetClock(h, "now")
	c14Populate(h, c, vDev, "a", h.Param("N", 2))
	if h.Range("connerr", 0, 1) == 1 {
		c.ConnectError(vDev, errors.New("x"))
	}
	if h.Range("refreshed", 0, 1) == 1 {
		c.UpdateMetadata()
	}
	data := vDataLeaves(c, vDev)
	var dels [][]string
	c.SetClient(func(l *ctree.Leaf) {
		n := l.Value().(*pb.Notification)
		for _, d := range n.Delete {
			dels = append(dels, append(path.ToStrings(n.Prefix, true), path.ToStrings(d, false)...))
		}
	})
	c.Reset(vDev)
	h.Assert(len(vDataLeaves(c, vDev)) == 0, "C14: Reset removes all non-metadata leaves of the target")
	for _, l := range data {
		covered := false
		full := append([]string{vDev}, l.p...)
		for _, d := range dels {
			covered = zz.Or(covered, vMatch(d, full))
		}
		h.Assert(covered, "C14: Reset announces deletes covering every removed leaf")
	}
	t := c.GetTarget(vDev)
	sync, _ := t.meta.GetBool(metadata.Sync)
	conn, _ := t.meta.GetBool(metadata.Connected)
	h.Assert(!sync && !conn, "C14: after Reset the target is not synced and not connected")
	for _, name := range []string{metadata.LeafCount, metadata.AddCount, metadata.DelCount, metadata.UpdateCount, metadata.StaleCount, metadata.SuppressedCount, metadata.FutureCount, metadata.EmptyCount} {
		h.Assert(vMetaInt(c, vDev, name) == 0, "C14: after Reset the counters are zero")
	}
	// differential: metadata (values and leaves) equals that of a freshly added target after one refresh
	f := New([]string{vDev})
	f.UpdateMetadata()
	a, b := c14Take(c, vDev), c14Take(f, vDev)
	h.Assert(len(a.ints) == len(b.ints) && len(a.bools) == len(b.bools), "C14: Reset returns the metadata entries to those of a fresh target")
	for k, v := range b.ints {
		h.Assert(a.ints[k] == v, "C14: Reset returns every metadata counter to its initial value")
	}
	for k, v := range b.bools {
		h.Assert(a.bools[k] == v, "C14: Reset returns every metadata flag to its initial value")
	}
	// every metadata leaf of a fresh target is present with the fresh value; the property does not
	// say what happens to string metadata whose reset action is "delete" (meta/connectError keeps
	// its leaf until the next Connect), so such a leaf is not demanded to vanish
	for _, fl := range b.leaves {
		found := false
		for _, al := range a.leaves {
			if vPathEq(fl.p, al.p) {
				found = true
				fv, av := fl.n.Update[0].Val, al.n.Update[0].Val
				h.Assert(fv.GetIntVal() == av.GetIntVal() && fv.GetBoolVal() == av.GetBoolVal() && fv.GetStringVal() == av.GetStringVal(), "C14: after Reset every metadata leaf carries its initial value")
			}
		}
		h.Assert(found, "C14: after Reset every metadata leaf of a fresh target is present")
	}
	for _, al := range a.leaves {
		h.Assert(len(al.p) == 2 && al.p[0] == "meta", "C14: after Reset only metadata leaves remain")
	}
}

// VerifC14_Remove: Remove makes the target unknown and announces a whole-target delete.
func VerifC14_Remove(h *zz.H) {
	c := New([]string{vDev, vDevB})
	vSetClock(h, "now")
	c14Populate(h, c, vDev, "a", h.Param("N", 2))
	var feed []*pb.Notification
	c.SetClient(func(l *ctree.Leaf) { feed = append(feed, l.Value().(*pb.Notification)) })
	c.Remove(vDev)
	h.Assert(!c.HasTarget(vDev), "C14: a removed target is unknown")
	h.Assert(c.GetTarget(vDev) == nil, "C14: a removed target has no state")
	idx := vIdx(h, "u", 1, 2)
	h.Assert(c.GnmiUpdate(vUpdate(vDev, idx, 0, h.Int64("ts"), vIntVal(1))) != nil, "C14: updates for a removed target are refused")
	h.Assert(c.Query(vDev, []string{"*"}, func([]string, *ctree.Leaf, interface{}) error { return nil }) != nil, "C14: queries for a removed target are refused")
	h.Assert(len(feed) == 1, "C14: Remove announces exactly one notification")
	if len(feed) == 1 {
		n := feed[0]
		full := append(path.ToStrings(n.Prefix, true), path.ToStrings(n.Delete[0], false)...)
		h.Assert(len(n.Delete) == 1 && len(full) == 2 && full[0] == vDev && full[1] == "*", "C14: Remove announces a whole-target delete")
	}
	h.Assert(c.HasTarget(vDevB), "C14: other targets stay known")
}


// VerifC14_LatencyFrame: isolation of the per-target latency statistics (differential: two caches
// with latency windows configured see the same history for target B; only the first also gets a
// synced target A with updates of symbolic latency). After a window has elapsed and the metadata
// refresh has run in both, everything stored or reported for B is the same in both caches.
func VerifC14_LatencyFrame(h *zz.H) {
	opt, err := WithLatencyWindows([]string{"2s"}, 2*time.Second)
	h.Assume(err == nil)
	base := int64(1000) * int64(time.Second)
	lnow := base
	latency.Now = func() time.Time { return time.Unix(0, lnow) }
	Now = func() time.Time { return time.Unix(0, lnow) }
	c1, c2 := New([]string{vDev, vDevB}, opt), New([]string{vDev, vDevB}, opt)
	lnow = base + int64(time.Second)
	// target B: the same in both caches (synced or not, with or without an update)
	bSync := h.Range("b_synced", 0, 1) == 1
	bUpd := h.Range("b_update", 0, 1) == 1
	bts := h.Int64("b_ts")
	h.Assume(bts > 0 && bts < base)
	for _, c := range []*Cache{c1, c2} {
		if bSync {
			c.Sync(vDevB)
		}
		if bUpd {
			c.GnmiUpdate(vUpdate(vDevB, []string{"x"}, 0, bts, vIntVal(1)))
		}
	}
	// target A, first cache only: synced, then updates whose latency is the solver's choice
	c1.Sync(vDev)
	na := h.Range("a_updates", 1, h.Param("NA", 2))
	for i := 0; i < na; i++ {
		ats := h.Int64("a_ts")
		h.Assume(ats > 0 && ats < base)
		c1.GnmiUpdate(vUpdate(vDev, []string{"y"}, 0, ats+int64(i), vIntVal(int64(i))))
	}
	switch h.Range("a_then", 0, 2) {
	case 1:
		c1.Reset(vDevB) // a reset of B itself must not pick up A's statistics either
		c2.Reset(vDevB)
	case 2:
		c1.Reset(vDev)
	}
	lnow = base + 3*int64(time.Second)
	c1.UpdateMetadata()
	c2.UpdateMetadata()
	a, b := c14Take(c1, vDevB), c14Take(c2, vDevB)
	h.Assert(len(a.ints) == len(b.ints), "C14: an update addressed to one target never changes which metadata is reported for another")
	for k, v := range b.ints {
		w, ok := a.ints[k]
		h.Assert(ok && w == v, "C14: an update addressed to one target never changes the metadata (latency statistics included) reported for another")
	}
	h.Assert(len(a.leaves) == len(b.leaves), "C14: an update addressed to one target never changes the leaves stored for another")
	for _, x := range a.leaves {
		found := false
		for _, y := range b.leaves {
			if vPathEq(x.p, y.p) {
				found = true
				h.Assert(proto.Equal(x.n.Update[0].Val, y.n.Update[0].Val), "C14: an update addressed to one target never changes what is stored for another")
			}
		}
		h.Assert(found, "C14: an update addressed to one target never adds leaves to another")
	}
}

// VerifC14_RemoveReAdd: a target is removed while another goroutine adds it again and streams a
// leaf into the new incarnation (a configuration reload racing a removal). Whatever the
// interleaving, the change feed stays in step with the cache: replaying it reproduces exactly
// what queries return (the old incarnation's whole-target delete is never announced after data
// of the new one).
func VerifC14_RemoveReAdd(h *zz.H) {
	c := New([]string{vDev})
	vSetClock(h, "now")
	r := &c03Replayer{h: h}
	var fmu sync.Mutex // a feed consumer is called from every writer's goroutine: it serialises itself
	c.SetClient(func(l *ctree.Leaf) {
		fmu.Lock()
		defer fmu.Unlock()
		if n, ok := l.Value().(*pb.Notification); ok && len(n.Update) > 0 {
			if p := path.ToStrings(n.Update[0].Path, false); len(n.Prefix.GetElem()) == 0 && len(p) > 0 && p[0] == "meta" {
				return
			}
		}
		r.apply(l)
	})
	c.GnmiUpdate(vUpdate(vDev, []string{"old"}, 0, 1, vIntVal(1)))
	done := make(chan bool, 2)
	go func() {
		c.Remove(vDev)
		done <- true
	}()
	go func() {
		// the re-add acts only once the removal has taken effect (an update racing the removal
		// of its own target is outside the property: the collector stops a target's session
		// before it removes the target)
		if !c.HasTarget(vDev) {
			c.Add(vDev)
			c.GnmiUpdate(vUpdate(vDev, []string{"new"}, 0, 2, vIntVal(2)))
		}
		done <- true
	}()
	<-done
	<-done
	r.agrees(c)
}
