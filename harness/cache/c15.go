package cache

// C15 (counters) — per-target metadata counters are truthful.

import (
	"errors"
	"time"

	"github.com/openconfig/gnmi/latency"
	"github.com/openconfig/gnmi/metadata"
	zz "github.com/openconfig/gnmi/zzverif"

	pb "github.com/openconfig/gnmi/proto/gnmi"
)

type c15Counters struct {
	leaves, added, deleted, updated, suppressed, stale, future, empty int64
}

func c15Read(c *Cache) c15Counters {
	return c15Counters{
		vMetaInt(c, vDev, metadata.LeafCount), vMetaInt(c, vDev, metadata.AddCount), vMetaInt(c, vDev, metadata.DelCount),
		vMetaInt(c, vDev, metadata.UpdateCount), vMetaInt(c, vDev, metadata.SuppressedCount), vMetaInt(c, vDev, metadata.StaleCount),
		vMetaInt(c, vDev, metadata.FutureCount), vMetaInt(c, vDev, metadata.EmptyCount),
	}
}

// c15Invariant: exported leaf count = number of non-metadata leaves stored = added - deleted.
func c15Invariant(h *zz.H, c *Cache) {
	k := c15Read(c)
	n := int64(len(vDataLeaves(c, vDev)))
	h.Assert(k.leaves == n, "C15: the exported leaf count equals the number of non-metadata leaves stored")
	h.Assert(k.leaves == k.added-k.deleted, "C15: the exported leaf count equals leaves added minus leaves deleted")
}

// c15Op performs one symbolic operation and checks the per-update accounting.
func c15Op(h *zz.H, c *Cache, name string) {
	before := c15Read(c)
	ops := h.Param("OPS", 8)
	switch h.Range(name+"_op", 0, ops) {
	case 0: // single update: new / stale / identical / newer / suppressed / future are the solver's choice
		idx := vIdx(h, name, 1, h.Param("L", 2))
		h.Assume(idx[0] != "meta")
		n := vUpdate(vDev, idx, vStyle(h, name+"_style", idx, h.Param("STYLES", 1)), h.Int64(name+"_ts"), vValue(h, name+"_v", h.Param("ARMS", 1)))
		err := c.GnmiUpdate(n)
		a := c15Read(c)
		du, ds, dst, df := a.updated-before.updated, a.suppressed-before.suppressed, a.stale-before.stale, a.future-before.future
		h.Assert(du >= 0 && ds >= 0 && dst >= 0 && df >= 0, "C15: counters never decrease")
		switch {
		case err == ErrStale:
			h.Assert(du == 0 && ds == 0 && dst == 1 && df == 0, "C15: a stale update is counted as stale only")
		case err == ErrFuture:
			h.Assert(du == 0 && ds == 0 && dst == 0 && df == 1, "C15: a future update is counted as future only")
		case err != nil:
			h.Assert(du == 0 && ds == 0 && dst == 0 && df == 0, "C15: an update refused for another reason is not counted")
		default:
			h.Assert(du+ds == 1 && dst == 0 && df == 0, "C15: an accepted update is counted in exactly one of updated or suppressed")
		}
		h.Assert(a.empty == before.empty, "C15: a non-empty notification is not counted as empty")
	case 1: // delete
		q := vIdx(h, name, 1, h.Param("L", 2)+1)
		h.Assume(q[0] != "meta")
		c.GnmiUpdate(vDelete(vDev, q, 0, h.Int64(name+"_ts")))
	case 2: // empty notification
		err := c.GnmiUpdate(&pb.Notification{Timestamp: h.Int64(name + "_ts"), Prefix: &pb.Path{Target: vDev}, Atomic: h.Range(name+"_atomic", 0, 1) == 1})
		a := c15Read(c)
		h.Assert(err == nil && a.empty == before.empty+1, "C15: every empty notification is counted as empty")
		h.Assert(a.updated == before.updated && a.stale == before.stale && a.suppressed == before.suppressed && a.future == before.future, "C15: an empty notification is counted as nothing else")
	case 3: // atomic notification with two updates under one container
		cont := vIdx(h, name, 1, 1)
		h.Assume(cont[0] != "meta")
		n := &pb.Notification{Timestamp: h.Int64(name + "_ts"), Atomic: true, Prefix: &pb.Path{Target: vDev, Elem: vElems(cont)}}
		for i := 0; i < 2; i++ {
			n.Update = append(n.Update, &pb.Update{Path: &pb.Path{Elem: vElems([]string{h.Atom(name + "_leaf")})}, Val: vIntVal(h.Int64(name + "_v"))})
		}
		err := c.GnmiUpdate(n)
		a := c15Read(c)
		changed := 0
		for _, d := range []int64{a.updated - before.updated, a.suppressed - before.suppressed, a.stale - before.stale, a.future - before.future} {
			if d != 0 {
				changed++
			}
		}
		if err == nil || err == ErrStale || err == ErrFuture {
			h.Assert(changed == 1, "C15: an atomic notification changes exactly one of updated, suppressed, stale, future")
		} else {
			h.Assert(changed == 0, "C15: a refused atomic notification is not counted")
		}
	case 4:
		c.Sync(vDev)
	case 5:
		c.Connect(vDev)
	case 6:
		c.ConnectError(vDev, errors.New("dial failed"))
	case 7:
		c.Reset(vDev)
	default:
		c.UpdateMetadata()
		c.UpdateSize()
	}
	c15Invariant(h, c)
}

// VerifC15_CounterStep: one operation from an arbitrary state satisfying the counter invariant.
func VerifC15_CounterStep(h *zz.H) {
	thr := h.Int64("threshold")
	h.Assume(thr >= 0 && thr < 1<<61)
	opts := []Option{WithFutureThreshold(time.Duration(thr))}
	if h.Range("eventdriven", 0, 1) == 0 {
		opts = append(opts, DisableEventDrivenEmulation())
	}
	c := New([]string{vDev}, opts...)
	vSetClock(h, "now")
	pre, _ := c02Pre(h, c, h.Param("P", 2))
	if thr > 0 {
		for _, l := range pre {
			h.Assume(l.n.Timestamp >= 0 && l.n.Timestamp < 1<<62)
		}
	}
	t := c.GetTarget(vDev)
	added := h.Int64("added")
	h.Assume(added >= int64(len(pre)) && added < 1<<40)
	t.meta.SetInt(metadata.LeafCount, int64(len(pre)))
	t.meta.SetInt(metadata.AddCount, added)
	t.meta.SetInt(metadata.DelCount, added-int64(len(pre)))
	for _, cn := range []string{metadata.UpdateCount, metadata.SuppressedCount, metadata.StaleCount, metadata.FutureCount, metadata.EmptyCount} {
		v := h.Int64("cnt")
		h.Assume(v >= 0 && v < 1<<40)
		t.meta.SetInt(cn, v)
	}
	// lifecycle pre-state: optionally synced / connected / in connect-error
	switch h.Range("lifecycle", 0, 3) {
	case 1:
		c.Sync(vDev)
	case 2:
		c.Connect(vDev)
	case 3:
		c.ConnectError(vDev, errors.New("dial failed"))
	}
	c15Invariant(h, c)
	c15Op(h, c, "x")
}

// VerifC15_CounterHistory: K operations from a fresh cache; after UpdateMetadata the exported
// latest timestamp is the greatest accepted target timestamp.
func VerifC15_CounterHistory(h *zz.H) {
	c := New([]string{vDev})
	vSetClock(h, "now")
	K := h.Param("K", 3)
	for k := 0; k < K; k++ {
		c15Op(h, c, "h")
	}
}

// VerifC15_LatestTimestamp: after accepted updates and a refresh, latestTimestamp is the greatest accepted one.
func VerifC15_LatestTimestamp(h *zz.H) {
	c := New([]string{vDev})
	vSetClock(h, "now")
	var max int64
	any := false
	K := h.Param("K", 2)
	for k := 0; k < K; k++ {
		ts := h.Int64("ts")
		h.Assume(ts > 0)
		if h.Param("MULTI", 1) == 1 && h.Range("bundle", 0, 1) == 1 {
			// a bundle of two updates in one non-atomic notification: each is accepted or refused
			// on its own (a refused sibling - schema collision, stale - does not undo the other)
			i1, i2 := vIdx(h, "b1", 1, 2), vIdx(h, "b2", 1, 2)
			h.Assume(i1[0] != "meta" && i2[0] != "meta")
			n := &pb.Notification{Timestamp: ts, Prefix: &pb.Path{Target: vDev}, Update: []*pb.Update{
				{Path: &pb.Path{Elem: vElems(i1)}, Val: vIntVal(h.Int64("v"))}, {Path: &pb.Path{Elem: vElems(i2)}, Val: vIntVal(h.Int64("v"))}}}
			err := c.GnmiUpdate(n)
			for _, idx := range [][]string{i1, i2} {
				// stored with this timestamp => accepted at this timestamp (now or earlier)
				if st := vStored(c, vDev, idx); st != nil && st.Timestamp == ts {
					if !any || ts > max {
						max = ts
					}
					any = true
				}
			}
			h.Trace("bundle", err == nil)
			continue
		}
		idx := vIdx(h, "u", 1, 2)
		h.Assume(idx[0] != "meta")
		n := vUpdate(vDev, idx, vStyle(h, "style", idx, vStyles), ts, vIntVal(h.Int64("v")))
		if c.GnmiUpdate(n) == nil {
			if !any || ts > max {
				max = ts
			}
			any = true
		}
	}
	c.UpdateMetadata()
	if any {
		h.Assert(vMetaInt(c, vDev, metadata.LatestTimestamp) == max, "C15: the exported latest timestamp is the greatest accepted target timestamp")
	}
	for _, l := range vDataLeaves(c, vDev) {
		h.Assert(vMetaInt(c, vDev, metadata.LatestTimestamp) >= l.n.Timestamp, "C15: the exported latest timestamp is not older than any stored leaf")
	}
	ln := vStored(c, vDev, metadata.Path(metadata.LatestTimestamp))
	if any && ln != nil {
		h.Assert(ln.Update[0].Val.GetIntVal() == max, "C15: the latest-timestamp leaf carries the greatest accepted target timestamp")
	}
}

// VerifC15_RefreshRace: the collector's periodic metadata/size refresh runs concurrently with a
// target's update stream (C15 d): no unsynchronised access to shared state.
func VerifC15_RefreshRace(h *zz.H) {
	c := New([]string{vDev})
	vSetClock(h, "now")
	a := h.Atom("leaf")
	h.Assume(a != "meta" && a != "*")
	switch h.Range("state", 0, 2) {
	case 1:
		c.Sync(vDev) // a synced target
	case 2:
		c.Connect(vDev)
	}
	// D10 (known finding / fixed): Target.sync written by the refresh, read by the update stream
	h.Known("D10-target-sync-race", true, "DATA RACE")
	done := make(chan bool, 2)
	go func() {
		c.GnmiUpdate(vUpdate(vDev, []string{a}, 0, 1, vIntVal(1)))
		c.GnmiUpdate(vUpdate(vDev, []string{a}, 0, 2, vIntVal(2)))
		done <- true
	}()
	go func() {
		c.UpdateMetadata()
		c.UpdateSize()
		done <- true
	}()
	<-done
	<-done
	h.Assert(vMetaInt(c, vDev, metadata.LeafCount) == 1, "C15: counters stay truthful under a concurrent refresh")
}

// VerifC15_RefreshRaceLatency: as VerifC15_RefreshRace with latency windows configured and the
// stream goroutine ending its session with Reset (which refreshes the target's metadata, latency
// statistics included) while the periodic refresh runs: no unsynchronised access to the window
// state, and the statistics exported stay within the latencies observed.
func VerifC15_RefreshRaceLatency(h *zz.H) {
	opt, err := WithLatencyWindows([]string{"2s"}, 2*time.Second)
	h.Assume(err == nil)
	base := int64(1000) * int64(time.Second)
	lnow := base
	latency.Now = func() time.Time { return time.Unix(0, lnow) }
	Now = func() time.Time { return time.Unix(0, lnow) }
	c := New([]string{vDev}, opt)
	c.Sync(vDev)
	lnow = base + int64(time.Second)
	lat := h.Int64("latency")
	h.Assume(lat > 0 && lat < int64(time.Hour))
	c.GnmiUpdate(vUpdate(vDev, []string{"x"}, 0, lnow-lat, vIntVal(1)))
	lnow = base + 3*int64(time.Second)
	done := make(chan bool, 2)
	go func() {
		switch h.Range("stream_end", 0, 1) {
		case 0:
			c.Reset(vDev) // the session ends: Reset refreshes the metadata itself
		default:
			c.GnmiUpdate(vUpdate(vDev, []string{"x"}, 0, lnow-lat, vIntVal(2)))
		}
		done <- true
	}()
	go func() {
		c.UpdateMetadata()
		done <- true
	}()
	<-done
	<-done
	for _, typ := range []latency.StatType{latency.Avg, latency.Max, latency.Min} {
		name := latency.MetadataName(2*time.Second, typ)
		if v, err := c.GetTarget(vDev).meta.GetInt(name); err == nil && v != 0 {
			h.Cover("a latency statistic was exported")
			h.Assert(v == lat, "C15: latency statistics exported for a window are bounded by the latencies observed in it")
		}
	}
}
