package cache

// Helpers shared by the cache harnesses (C02, C03, C12, C14, C15).

import (
	"time"

	"github.com/openconfig/gnmi/ctree"
	"github.com/openconfig/gnmi/metadata"
	zz "github.com/openconfig/gnmi/zzverif"

	pb "github.com/openconfig/gnmi/proto/gnmi"
)

const vDev = "dev"

// vIdx draws a symbolic index path of minLen..maxLen arbitrary names.
func vIdx(h *zz.H, name string, minLen, maxLen int) []string {
	n := h.Range(name+"_len", minLen, maxLen)
	p := make([]string, 0, n)
	for i := 0; i < n; i++ {
		p = append(p, h.Atom(name))
	}
	return p
}

func vElems(names []string) []*pb.PathElem {
	var r []*pb.PathElem
	for _, n := range names {
		r = append(r, &pb.PathElem{Name: n})
	}
	return r
}

// Encoding styles of one index path idx (len >= 1) in a notification:
//
//	0: all elements in the update path            1: first element in the prefix, rest in the path
//	2: deprecated `element` encoding in the path  3: all elements in the prefix, empty path
//	4: first element becomes the prefix origin    (index = [origin, rest...])
const vStyles = 5

// vStyle draws an encoding style for idx and assumes what makes idx the actual index path.
func vStyle(h *zz.H, name string, idx []string, styles int) int {
	st := h.Range(name, 0, styles-1)
	if st == 4 {
		h.Assume(idx[0] != "") // an empty origin is not part of the index
	}
	return st
}

func vSplit(target string, idx []string, style int) (prefix, path *pb.Path) {
	prefix = &pb.Path{Target: target}
	path = &pb.Path{}
	switch style {
	case 0:
		path.Elem = vElems(idx)
	case 1:
		prefix.Elem = vElems(idx[:1])
		path.Elem = vElems(idx[1:])
	case 2:
		path.Element = append([]string{}, idx...)
	case 3:
		prefix.Elem = vElems(idx)
	case 4:
		prefix.Origin = idx[0]
		path.Elem = vElems(idx[1:])
	}
	return
}

// vValue draws a TypedValue: int, string or bool arm with symbolic payload.
func vValue(h *zz.H, name string, arms int) *pb.TypedValue {
	if m := h.Param("ARMMASK", 0); m != 0 {
		var sel []int
		for a := 0; a < 10; a++ {
			if m&(1<<a) != 0 {
				sel = append(sel, a)
			}
		}
		return vValueArm(h, name, sel[h.Range(name+"_arm", 0, len(sel)-1)])
	}
	return vValueArm(h, name, h.Range(name+"_arm", 0, arms-1))
}

// vValueArm: arms 0..4 scalars (int, string, bool, double, decimal); 5 leaf-list of 0..2 int or
// string members; 6 uint; 7 bytes (<= 2); 8 ascii; 9 float.
func vValueArm(h *zz.H, name string, arm int) *pb.TypedValue {
	switch arm {
	case 0:
		return &pb.TypedValue{Value: &pb.TypedValue_IntVal{IntVal: h.Int64(name + "_i")}}
	case 1:
		return &pb.TypedValue{Value: &pb.TypedValue_StringVal{StringVal: h.Atom(name + "_s")}}
	case 2:
		return &pb.TypedValue{Value: &pb.TypedValue_BoolVal{BoolVal: h.Bool(name + "_b")}}
	case 3:
		return &pb.TypedValue{Value: &pb.TypedValue_DoubleVal{DoubleVal: h.Float64(name + "_d")}}
	case 4:
		return &pb.TypedValue{Value: &pb.TypedValue_DecimalVal{DecimalVal: &pb.Decimal64{Digits: h.Int64(name + "_digits"), Precision: h.Uint32(name + "_prec")}}}
	case 5:
		ll := &pb.ScalarArray{}
		n := h.Range(name+"_ll_len", 0, 2)
		for i := 0; i < n; i++ {
			if h.Range(name+"_ll_arm", 0, 1) == 0 {
				ll.Element = append(ll.Element, &pb.TypedValue{Value: &pb.TypedValue_IntVal{IntVal: h.Int64(name + "_ll_i")}})
			} else {
				ll.Element = append(ll.Element, &pb.TypedValue{Value: &pb.TypedValue_StringVal{StringVal: h.Atom(name + "_ll_s")}})
			}
		}
		return &pb.TypedValue{Value: &pb.TypedValue_LeaflistVal{LeaflistVal: ll}}
	case 6:
		return &pb.TypedValue{Value: &pb.TypedValue_UintVal{UintVal: h.Uint64(name + "_u")}}
	case 7:
		return &pb.TypedValue{Value: &pb.TypedValue_BytesVal{BytesVal: []byte(h.Bytes(name+"_y", 2))}}
	case 8:
		return &pb.TypedValue{Value: &pb.TypedValue_AsciiVal{AsciiVal: h.Atom(name + "_a")}}
	case 9:
		return &pb.TypedValue{Value: &pb.TypedValue_FloatVal{FloatVal: h.Float32(name + "_f")}}
	default:
		return nil
	}
}

func vUpdate(target string, idx []string, style int, ts int64, val *pb.TypedValue) *pb.Notification {
	prefix, path := vSplit(target, idx, style)
	return &pb.Notification{Timestamp: ts, Prefix: prefix, Update: []*pb.Update{{Path: path, Val: val}}}
}

func vDelete(target string, idx []string, style int, ts int64) *pb.Notification {
	prefix, path := vSplit(target, idx, style)
	return &pb.Notification{Timestamp: ts, Prefix: prefix, Delete: []*pb.Path{path}}
}

func vPathEq(a, b []string) bool {
	if len(a) != len(b) {
		return false
	}
	ok := true
	for i := range a {
		ok = zz.And(ok, a[i] == b[i])
	}
	return ok
}

func vPrefixEq(a, b []string, n int) bool {
	ok := true
	for i := 0; i < n; i++ {
		ok = zz.And(ok, a[i] == b[i])
	}
	return ok
}

// vMatch: the tree's wildcard rule (see C09): q matches stored leaf p.
func vMatch(q, p []string) bool {
	n := len(q)
	if n > len(p)+1 {
		return false
	}
	m := n
	if m > len(p) {
		m = len(p)
	}
	ok := true
	for i := 0; i < m; i++ {
		ok = zz.And(ok, zz.Or(q[i] == "*", q[i] == p[i]))
	}
	if n == len(p)+1 {
		ok = zz.And(ok, q[n-1] == "*")
	}
	return ok
}

// vStored returns the notification stored at idx in target dev (nil if none / not a leaf).
func vStored(c *Cache, target string, idx []string) *pb.Notification {
	t := c.GetTarget(target)
	if t == nil {
		return nil
	}
	v := t.t.GetLeafValue(idx)
	if v == nil {
		return nil
	}
	return v.(*pb.Notification)
}

type vLeaf struct {
	p []string
	n *pb.Notification
}

// vDataLeaves lists the non-metadata leaves of a target.
func vDataLeaves(c *Cache, target string) []vLeaf {
	var r []vLeaf
	t := c.GetTarget(target)
	if t == nil {
		return nil
	}
	t.t.Walk(func(p []string, _ *ctree.Leaf, v interface{}) error {
		if len(p) > 0 && p[0] == metadata.Root {
			return nil
		}
		r = append(r, vLeaf{append([]string{}, p...), v.(*pb.Notification)})
		return nil
	})
	return r
}

func vSetClock(h *zz.H, name string) int64 {
	now := h.Int64(name)
	h.Assume(now >= 0 && now < 1<<62)
	Now = func() time.Time { return T(now) }
	return now
}

func vMetaInt(c *Cache, target, name string) int64 {
	v, err := c.GetTarget(target).meta.GetInt(name)
	if err != nil {
		return -1 << 62
	}
	return v
}

func vIntVal(v int64) *pb.TypedValue {
	return &pb.TypedValue{Value: &pb.TypedValue_IntVal{IntVal: v}}
}
