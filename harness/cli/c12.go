package cli

// C12 (CLI display) — no response stream shown by the CLI makes it panic: the group display
// (displayWalk over the client's tree) and the streaming display closure on arbitrary
// notifications, including updates at the root path.

import (
	"context"
	"io"
	"time"

	"github.com/openconfig/gnmi/client"
	zz "github.com/openconfig/gnmi/zzverif"
)

type c12Impl struct {
	h       *zz.H
	handler client.NotificationHandler
	script  []client.Notification
	pos     int
}

func (i *c12Impl) Subscribe(ctx context.Context, q client.Query) error {
	i.handler = q.NotificationHandler
	return nil
}
func (i *c12Impl) Poll() error  { return nil }
func (i *c12Impl) Close() error { return nil }
func (i *c12Impl) Recv() error {
	if i.pos >= len(i.script) {
		return io.EOF
	}
	n := i.script[i.pos]
	i.pos++
	return i.handler(n)
}

func c12Path(h *zz.H, name string) client.Path {
	n := h.Range(name+"_n", 0, 2)
	var p client.Path
	for k := 0; k < n; k++ {
		p = append(p, h.Atom(name))
	}
	return p
}

// c12Val: the decoded value of an update as the client library hands it to the display: scalars,
// nil, bytes, and (possibly empty or nested) lists.
func c12Val(h *zz.H) interface{} {
	switch h.Range("val_kind", 0, h.Param("VALS", 8)) {
	case 0:
		return h.Int64("v")
	case 1:
		return h.Atom("vs")
	case 2:
		return h.Bool("vb")
	case 3:
		return nil
	case 4:
		return []interface{}{}
	case 5:
		return []interface{}{h.Int64("v"), h.Atom("vs")}
	case 6:
		return []interface{}{[]interface{}{}, h.Int64("v")}
	case 7:
		return []byte{}
	default:
		return h.Uint64("vu")
	}
}

func c12Noti(h *zz.H) client.Notification {
	switch h.Range("kind", 0, 3) {
	case 0:
		return client.Update{Path: c12Path(h, "upd"), TS: time.Unix(0, h.Int64("ts")), Val: c12Val(h)}
	case 1:
		return client.Delete{Path: c12Path(h, "del"), TS: time.Unix(0, h.Int64("ts"))}
	case 2:
		return client.Sync{}
	default:
		return client.Connected{}
	}
}

// VerifC12_CLIDisplay: a response stream of K notifications shown with the group display,
// for ONCE and STREAM queries, timestamps off / on / raw.
func VerifC12_CLIDisplay(h *zz.H) {
	impl := &c12Impl{h: h}
	K := h.Param("K", 2)
	for k := 0; k < K; k++ {
		impl.script = append(impl.script, c12Noti(h))
	}
	impl.script = append(impl.script, client.Sync{})
	if h.Range("after_sync", 0, 1) == 1 {
		impl.script = append(impl.script, c12Noti(h))
	}
	client.RegisterTest("v", func(ctx context.Context, d client.Destination) (client.Impl, error) { return impl, nil })
	shown := 0
	cfg := &Config{DisplayType: "group", Display: func([]byte) { shown++ }, ClientTypes: []string{"v"}}
	cfg.Timestamp = []string{"", "on", "raw"}[h.Range("timestamp", 0, 2)]
	q := client.Query{Addrs: []string{"a"}, Target: "t", Queries: []client.Path{{"x"}}}
	q.Type = []client.Type{client.Once, client.Stream}[h.Range("qtype", 0, 1)]
	err := sendQueryAndDisplay(context.Background(), q, cfg)
	_ = err
	h.Cover("display returned")
	h.Trace("shown", shown >= 0)
}
