package client

// C12 (client receive path, cache side) — CacheClient.defaultHandler on arbitrary notifications:
// the client's tree either processes them or returns an error, never panics.

import (
	"time"

	zz "github.com/openconfig/gnmi/zzverif"
)

func c12CPath(h *zz.H, name string) Path {
	switch h.Range(name+"_form", 0, 2) {
	case 0:
		return nil
	case 1:
		return Path{}
	default:
		n := h.Range(name+"_n", 1, 3)
		var p Path
		for i := 0; i < n; i++ {
			p = append(p, h.Atom(name))
		}
		return p
	}
}

// VerifC12_CacheClient: K arbitrary notifications into a CacheClient's handler.
func VerifC12_CacheClient(h *zz.H) {
	c := New()
	K := h.Param("K", 3)
	for k := 0; k < K; k++ {
		var n Notification
		switch h.Range("kind", 0, 5) {
		case 0:
			n = nil
		case 1:
			n = Connected{}
		case 2:
			n = Sync{}
		case 3:
			n = Error{}
		case 4:
			n = Update{Path: c12CPath(h, "upd"), TS: time.Unix(0, h.Int64("ts")), Val: h.Int64("v")}
		default:
			n = Delete{Path: c12CPath(h, "del"), TS: time.Unix(0, h.Int64("ts"))}
		}
		err := c.defaultHandler(n)
		_ = err
		h.Cover("handler returned")
	}
	leaves := c.Leaves()
	h.Trace("leaves", len(leaves))
}
