package client

// C18 — client Subscribe/Close always terminate; reconnect keeps callback discipline.
// Scripted transport (Impl registered with RegisterTest), Close issued concurrently by the
// main goroutine, every interleaving within the preemption bound; time.Sleep is a scheduling point.

import (
	"context"
	"errors"
	"io"
	"sync"

	zz "github.com/openconfig/gnmi/zzverif"
)

type c18World struct {
	h        *zz.H
	budget   int // remaining scripted Recv outcomes; afterwards Recv blocks until closed / cancelled
	attempts int // Impl.Subscribe calls
	disc     int
	reset    int
	seq      int
	lastSeen int
	inStream bool
	closeReturned bool
	afterClose    int // messages delivered after Close returned
	sig           chan bool
	bad      bool
}

// c18Impl is a transport that honours the contract real transports honour and the termination
// argument relies on: Close is safe to call concurrently and repeatedly and unblocks Recv; Recv
// also ends when the context it was created with is cancelled.
type c18Impl struct {
	ctx     context.Context
	w       *c18World
	closed  chan struct{}
	handler NotificationHandler
	first   bool
	mu      sync.Mutex
}

func (i *c18Impl) Subscribe(ctx context.Context, q Query) error {
	i.handler = q.NotificationHandler
	i.w.attempts++
	if ctx.Err() != nil {
		return ctx.Err() // a cancelled context fails the subscription at once
	}
	if i.w.budget > 0 && i.w.h.Param("SUBFAIL", 0) == 1 && i.w.h.Range("subscribe", 0, 1) == 1 {
		i.w.budget--
		return errors.New("subscribe refused")
	}
	return nil
}

func (i *c18Impl) Poll() error { return nil }

func (i *c18Impl) Close() error {
	i.mu.Lock()
	defer i.mu.Unlock()
	select {
	case <-i.closed:
	default:
		close(i.closed)
	}
	return nil
}

func (i *c18Impl) Recv() error {
	if !i.first {
		i.first = true
		return i.handler(Connected{}) // what the gNMI transport does on a (re)connected stream
	}
	// a closed transport delivers nothing further; messages already buffered by an established
	// stream may still be delivered after its context was cancelled (as gRPC's receive buffer does)
	select {
	case <-i.closed:
		return errors.New("transport closed")
	default:
	}
	if i.w.budget > 0 {
		i.w.budget--
		switch i.w.h.Range("recv", 0, 2) {
		case 0:
			i.w.seq++
			return i.handler(Update{Path: Path{"x"}, Val: i.w.seq})
		case 1:
			return errors.New("stream broke")
		default:
			return io.EOF
		}
	}
	select {
	case <-i.ctx.Done():
		return i.ctx.Err()
	case <-i.closed:
		return errors.New("transport closed")
	}
}

// VerifC18_CloseTerminates: Close at any moment relative to Subscribe (before it, during connect,
// while streaming, during the backoff sleep): both calls return, with the callback discipline intact.
func VerifC18_CloseTerminates(h *zz.H) {
	w := &c18World{h: h, budget: h.Param("BUDGET", 2)}
	RegisterTest("v", func(ctx context.Context, d Destination) (Impl, error) {
		if w.budget > 0 && h.Param("NEWFAIL", 0) == 1 && h.Range("new", 0, 1) == 1 {
			w.budget--
			return nil, errors.New("connect refused")
		}
		if ctx.Err() != nil {
			return nil, ctx.Err() // dialling with a cancelled context fails at once
		}
		return &c18Impl{ctx: ctx, w: w, closed: make(chan struct{})}, nil
	})
	handler := func(n Notification) error {
		if w.closeReturned {
			w.afterClose++
		}
		switch v := n.(type) {
		case Connected:
			h.Assert(!w.inStream, "C18: one Connected per (re)connected stream")
			w.inStream = true
		case Update:
			h.Assert(w.inStream, "C18: a Connected notification precedes all others on every (re)connected stream")
			h.Assert(v.Val.(int) > w.lastSeen, "C18: notifications reach the application in the order received")
			w.lastSeen = v.Val.(int)
		}
		return nil
	}
	ended := 0
	rc := Reconnect(&BaseClient{}, func() {
		w.disc++
		w.inStream = false
		ended++
	}, func() {
		w.reset++
		h.Assert(w.reset <= w.disc, "C18: the reset callback runs only before a retry, after the disconnect of the ended attempt")
	})
	subDone := make(chan error, 1)
	q := Query{Addrs: []string{"a"}, Target: "t", Type: Stream, Queries: []Path{{"x"}}, NotificationHandler: handler}
	go func() { subDone <- rc.Subscribe(context.Background(), q, "v") }()
	rc.Close()
	w.closeReturned = true
	err := <-subDone
	h.Assert(err != nil, "C18: Subscribe returns after Close")
	h.Assert(w.afterClose <= 1, "C18: after Close returns at most the notifications of one further received message are delivered")
	h.Assert(w.disc >= 1, "C18: the disconnect callback runs once per ended attempt")
	h.Assert(w.reset <= w.disc, "C18: the reset callback runs before each retry only")
	h.Trace("attempts", w.attempts >= 0)
}

// VerifC18_KeepsResubscribing: a reconnecting client that has not been closed resubscribes after
// every failure, with disconnect once per ended attempt and reset before each retry.
func VerifC18_KeepsResubscribing(h *zz.H) {
	B := h.Param("BUDGET", 3)
	w := &c18World{h: h, budget: B}
	news := 0
	RegisterTest("v", func(ctx context.Context, d Destination) (Impl, error) {
		news++
		return &c18Impl{ctx: ctx, w: w, closed: make(chan struct{})}, nil
	})
	fails := 0
	handler := func(n Notification) error { return nil }
	rc := Reconnect(&BaseClient{}, func() { w.disc++ }, func() {
		w.reset++
		h.Assert(w.reset == w.disc, "C18: reset runs once before each retry, after the disconnect of the ended attempt")
	})
	_ = fails
	q := Query{Addrs: []string{"a"}, Target: "t", Type: Stream, Queries: []Path{{"x"}}, NotificationHandler: handler}
	go func() { rc.Subscribe(context.Background(), q, "v") }()
	h.Quiesce()
	// quiescent: the script is used up and the current stream is silent (blocked in Recv)
	h.Assert(w.budget == 0, "C18: a client that has not been closed keeps resubscribing after every failure")
	h.Assert(news == w.disc+1, "C18: a new attempt follows every ended attempt")
	h.Assert(w.reset == w.disc, "C18: reset before each retry")
}

// c18Buffered is a transport with a receive buffer: the messages it has already buffered are still
// returned by Recv after Close (as a gRPC stream's receive buffer does) - which is why the read
// loop has to look at its own closed flag after every message.
type c18Buffered struct {
	w        *c18World
	handler  NotificationHandler
	buffered int
	closed   chan struct{}
	mu       sync.Mutex
	first    bool
}

func (i *c18Buffered) Subscribe(ctx context.Context, q Query) error {
	i.handler = q.NotificationHandler
	return nil
}
func (i *c18Buffered) Poll() error { return nil }
func (i *c18Buffered) Close() error {
	i.mu.Lock()
	defer i.mu.Unlock()
	select {
	case <-i.closed:
	default:
		close(i.closed)
	}
	return nil
}
func (i *c18Buffered) Recv() error {
	if !i.first {
		i.first = true
		select {
		case i.w.sig <- true: // the stream is up (the client holds its transport from here on)
		default:
		}
		return i.handler(Connected{})
	}
	if i.buffered > 0 {
		i.buffered--
		i.w.seq++
		return i.handler(Update{Path: Path{"x"}, Val: i.w.seq})
	}
	<-i.closed // nothing buffered: the stream is silent until it is closed
	return errors.New("transport closed")
}

// VerifC18_BaseCloseStops: BaseClient.Subscribe with a query of every type on a transport that has
// B messages buffered, Close issued by another goroutine at any moment: Subscribe returns, and
// after Close has returned at most the notifications of one further received message are delivered.
func VerifC18_BaseCloseStops(h *zz.H) {
	w := &c18World{h: h}
	impl := &c18Buffered{w: w, buffered: h.Param("B", 3), closed: make(chan struct{})}
	RegisterTest("v", func(ctx context.Context, d Destination) (Impl, error) { return impl, nil })
	handler := func(n Notification) error {
		h.Yield() // an application handler synchronises with the rest of the program: a scheduling point
		if w.closeReturned {
			w.afterClose++
		}
		if v, ok := n.(Update); ok {
			h.Assert(v.Val.(int) > w.lastSeen, "C18: notifications reach the application in the order received")
			w.lastSeen = v.Val.(int)
		}
		return nil
	}
	bc := &BaseClient{}
	q := Query{Addrs: []string{"a"}, Target: "t", Queries: []Path{{"x"}}, NotificationHandler: handler}
	q.Type = []Type{Stream, Once, Poll}[h.Range("qtype", 0, 2)]
	subDone := make(chan error, 1)
	w.sig = make(chan bool, 1)
	go func() { subDone <- bc.Subscribe(context.Background(), q, "v") }()
	<-w.sig // Close before the transport exists is refused (ErrClientInit): wait for the stream
	h.Assert(bc.Close() == nil, "C18: Close of a subscribed client succeeds")
	w.closeReturned = true
	<-subDone
	h.Assert(w.afterClose <= 1, "C18: after Close returns at most the notifications of one further received message are delivered")
}

// c18PollImpl: the first stream of a Poll query - Connected, then the sync that ends the initial
// round; a later poll trigger is never answered (Recv blocks until the transport is closed).
type c18PollImpl struct {
	handler NotificationHandler
	step    int
	closed  chan struct{}
	mu      sync.Mutex
	synced  chan bool
	polled  chan bool
}

func (i *c18PollImpl) Subscribe(ctx context.Context, q Query) error {
	i.handler = q.NotificationHandler
	return nil
}
func (i *c18PollImpl) Poll() error {
	i.polled <- true
	return nil
}
func (i *c18PollImpl) Close() error {
	i.mu.Lock()
	defer i.mu.Unlock()
	select {
	case <-i.closed:
	default:
		close(i.closed)
	}
	return nil
}
func (i *c18PollImpl) Recv() error {
	i.step++
	switch i.step {
	case 1:
		return i.handler(Connected{})
	case 2:
		i.handler(Sync{})
		i.synced <- true
		return ErrStopReading
	}
	<-i.closed // the target never answers the poll trigger
	return errors.New("transport closed")
}

// VerifC18_PollClose: a reconnecting client with a Poll query; after the initial round the
// application polls, the target never answers, and Close is called while that Poll is in flight
// (reconnect attempts hang in their dial until the context ends): Close, Poll and Subscribe all
// return.
func VerifC18_PollClose(h *zz.H) {
	impl := &c18PollImpl{closed: make(chan struct{}), synced: make(chan bool, 1), polled: make(chan bool, 1)}
	first := true
	RegisterTest("v", func(ctx context.Context, d Destination) (Impl, error) {
		if first {
			first = false
			return impl, nil
		}
		<-ctx.Done() // every later dial hangs until the client is closed
		return nil, ctx.Err()
	})
	rc := Reconnect(&BaseClient{}, nil, nil)
	q := Query{Addrs: []string{"a"}, Target: "t", Type: Poll, Queries: []Path{{"x"}}, NotificationHandler: func(Notification) error { return nil }}
	subDone := make(chan error, 1)
	go func() { subDone <- rc.Subscribe(context.Background(), q, "v") }()
	<-impl.synced // the initial round is complete
	pollDone := make(chan error, 1)
	go func() { pollDone <- rc.Poll() }()
	<-impl.polled // the poll trigger went out; its answer never comes
	rc.Close()
	h.Cover("Close returned while a Poll was in flight")
	<-pollDone
	err := <-subDone
	h.Assert(err != nil, "C18: Subscribe returns after Close")
}
