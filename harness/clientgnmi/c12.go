package client

// C12 (client receive path, gNMI transport side) — no SubscribeResponse makes the client's
// receive path panic: defaultRecv and noti on an arbitrary decoded response.

import (
	"github.com/openconfig/gnmi/client"
	"github.com/openconfig/gnmi/path"
	zz "github.com/openconfig/gnmi/zzverif"

	gpb "github.com/openconfig/gnmi/proto/gnmi"
)

func c12Path(h *zz.H, name string, allowNil bool) *gpb.Path {
	lo := 1
	if allowNil {
		lo = 0
	}
	switch h.Range(name+"_form", lo, 2) {
	case 0:
		return nil
	case 1:
		p := &gpb.Path{Target: h.Atom(name + "_target"), Origin: h.Atom(name + "_origin")}
		n := h.Range(name+"_n", 0, 2)
		for i := 0; i < n; i++ {
			e := &gpb.PathElem{Name: h.Atom(name + "_name")}
			if h.Range(name+"_key", 0, 1) == 1 {
				e.Key = map[string]string{h.Atom(name + "_k"): h.Atom(name + "_kv")}
			}
			p.Elem = append(p.Elem, e)
		}
		return p
	default:
		p := &gpb.Path{}
		n := h.Range(name+"_nelement", 1, 2)
		for i := 0; i < n; i++ {
			p.Element = append(p.Element, h.Atom(name+"_element"))
		}
		return p
	}
}

func c12Val(h *zz.H, name string) (*gpb.TypedValue, *gpb.Value) {
	switch h.Range(name+"_kind", 0, 9) {
	case 0:
		return nil, nil
	case 1:
		return &gpb.TypedValue{}, nil
	case 2:
		return &gpb.TypedValue{Value: &gpb.TypedValue_IntVal{IntVal: h.Int64(name + "_i")}}, nil
	case 3:
		return &gpb.TypedValue{Value: &gpb.TypedValue_StringVal{StringVal: h.Atom(name + "_s")}}, nil
	case 4:
		return &gpb.TypedValue{Value: &gpb.TypedValue_DoubleVal{DoubleVal: h.Float64(name + "_d")}}, nil
	case 5:
		return &gpb.TypedValue{Value: &gpb.TypedValue_BytesVal{BytesVal: nil}}, nil
	case 6:
		sa := &gpb.ScalarArray{}
		if h.Range(name+"_ll", 0, 1) == 1 {
			sa.Element = append(sa.Element, &gpb.TypedValue{})
		}
		return &gpb.TypedValue{Value: &gpb.TypedValue_LeaflistVal{LeaflistVal: sa}}, nil
	case 7:
		return &gpb.TypedValue{Value: &gpb.TypedValue_AnyVal{}}, nil
	case 8: // deprecated Value field, BYTES encoding
		return nil, &gpb.Value{Type: gpb.Encoding_BYTES}
	default: // deprecated Value field, unsupported encoding
		return nil, &gpb.Value{Type: gpb.Encoding(h.Range(name+"_enc", 2, 5))}
	}
}

// VerifC12_ClientRecv: an arbitrary decoded SubscribeResponse.
func VerifC12_ClientRecv(h *zz.H) {
	var got []client.Notification
	c := &Client{query: client.Query{Type: []client.Type{client.Once, client.Poll, client.Stream}[h.Range("qtype", 0, 2)]}}
	c.handler = func(n client.Notification) error {
		got = append(got, n)
		return nil
	}
	resp := &gpb.SubscribeResponse{}
	switch h.Range("response", 0, 3) {
	case 0:
	case 1:
		resp.Response = &gpb.SubscribeResponse_SyncResponse{SyncResponse: h.Bool("sync")}
	case 2:
		resp.Response = &gpb.SubscribeResponse_Error{Error: &gpb.Error{}}
	default:
		n := &gpb.Notification{Timestamp: h.Int64("ts"), Prefix: c12Path(h, "prefix", true), Atomic: h.Range("atomic", 0, 1) == 1}
		nu := h.Range("nupd", 0, h.Param("U", 2))
		for i := 0; i < nu; i++ {
			tv, dv := c12Val(h, "val")
			n.Update = append(n.Update, &gpb.Update{Path: c12Path(h, "upd", true), Val: tv, Value: dv, Duplicates: h.Uint32("dups")})
		}
		nd := h.Range("ndel", 0, h.Param("D", 1))
		for i := 0; i < nd; i++ {
			n.Delete = append(n.Delete, c12Path(h, "del", false))
		}
		resp.Response = &gpb.SubscribeResponse_Update{Update: n}
	}
	err := c.defaultRecv(resp)
	h.Cover("client receive path returned")
	h.Trace("recv", err == nil, len(got))
	h.Assert(len(got) >= 1, "C12: the first message of a stream is preceded by Connected")
	if len(got) >= 1 {
		_, isConn := got[0].(client.Connected)
		h.Assert(isConn, "C12: Connected precedes every other notification")
	}
	// a second message on the same stream
	err = c.defaultRecv(resp)
	_ = err
}

// VerifC19_QueryRoundTrip (C19 e): a client query made of plain elements reaches the server
// indexed as the same elements: pathToString + ygot.StringToPath + path.ToStrings on symbolic
// byte strings (ASCII, <= B bytes per element).
func VerifC19_QueryRoundTrip(h *zz.H) {
	n := h.Range("elements", 1, h.Param("E", 2))
	var q client.Path
	for i := 0; i < n; i++ {
		e := h.Bytes("elem", h.Param("B", 2))
		h.Assume(e != "")
		for k := 0; k < len(e); k++ {
			c := e[k]
			// "plain": none of the path syntax characters
			h.Assume(c != '[' && c != ']' && c != '\\' && c != ' ')
		}
		q = append(q, e)
	}
	last := q[n-1]
	h.Known("D17-last-query-element-ends-in-slash", last[len(last)-1] == '/', "reaches the server indexed")
	req, err := subscribe(client.Query{Target: "t", Type: client.Once, Queries: []client.Path{q}})
	h.Assert(err == nil, "C19: a query made of plain elements is accepted")
	if err != nil {
		return
	}
	got := path.ToStrings(req.GetSubscribe().Subscription[0].Path, false)
	ok := len(got) == len(q)
	if ok {
		for i := range q {
			ok = zz.And(ok, got[i] == q[i])
		}
	}
	h.Assert(ok, "C19: a client query made of plain elements (which may contain '/') reaches the server indexed as the same elements")
}
