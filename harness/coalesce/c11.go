package coalesce

// C11 — coalescing queue: first-insertion order, exact duplicate counts, no loss at close.

import (
	"context"

	zz "github.com/openconfig/gnmi/zzverif"
)

type c11Pending struct {
	item int64
	dups uint32
}

// VerifC11_Sequential: K operations from {Insert, Next (when it cannot block), Close, Len, IsClosed}
// against a reference model: distinct pending items in order of first pending insertion with counters.
func VerifC11_Sequential(h *zz.H) {
	q := NewQueue()
	var model []c11Pending
	closed := false
	ctx := context.Background()
	K := h.Param("K", 5)
	for k := 0; k < K; k++ {
		switch h.Range("op", 0, 3) {
		case 0:
			x := h.Int64("x")
			fresh, err := q.Insert(x)
			if closed {
				h.Assert(err != nil && IsClosedQueue(err) && !fresh, "C11: insertions after close are refused")
				break
			}
			h.Assert(err == nil, "C11: insertion into an open queue succeeds")
			found := false
			for i := range model {
				if model[i].item == x { // forks
					model[i].dups++
					found = true
					break
				}
			}
			if !found {
				model = append(model, c11Pending{x, 0})
			}
			h.Assert(fresh == !found, "C11: Insert reports whether the item was newly queued")
		case 1:
			if len(model) == 0 && !closed {
				break // Next would block
			}
			it, dups, err := q.Next(ctx)
			if len(model) == 0 {
				h.Assert(IsClosedQueue(err), "C11: a closed empty queue reports closed")
				break
			}
			h.Assert(err == nil, "C11: pending items are delivered even after close")
			if err == nil {
				h.Assert(it.(int64) == model[0].item, "C11: items are delivered in the order of their first pending insertion")
				h.Assert(dups == model[0].dups, "C11: an item is delivered once with the number of extra insertions")
			}
			model = model[1:]
		case 2:
			q.Close()
			closed = true
		default:
			h.Assert(q.Len() == len(model), "C11: Len is the number of distinct pending items")
			h.Assert(q.IsClosed() == closed, "C11: IsClosed reports close")
		}
	}
	h.Assert(q.Len() == len(model), "C11: Len is the number of distinct pending items")
	h.Trace("len", q.Len())
}

// VerifC11_Producers: P producers insert, one closer closes after the producers it waits for, one
// consumer (the main goroutine) loops on Next. Conservation, drain before closed, per-producer
// order, no deadlock, no race — under every schedule within the preemption bound.
func VerifC11_Producers(h *zz.H) {
	q := NewQueue()
	P, I := h.Param("P", 2), h.Param("I", 1)
	done := make(chan int, P)
	accepted := make([]int, P) // inserts that returned nil, per producer
	items := make([][]int64, P)
	for p := 0; p < P; p++ {
		for i := 0; i < I; i++ {
			items[p] = append(items[p], h.Int64("item"))
		}
	}
	for p := 0; p < P; p++ {
		p := p
		go func() {
			for _, x := range items[p] {
				if _, err := q.Insert(x); err == nil {
					accepted[p]++
				}
			}
			done <- p
		}()
	}
	waitFor := h.Range("closer_waits_for", 0, P) // inserts of this many producers happen-before Close
	go func() {
		for i := 0; i < waitFor; i++ {
			<-done
		}
		q.Close()
	}()
	ctx := context.Background()
	delivered := 0
	var got []int64
	for {
		it, dups, err := q.Next(ctx)
		if err != nil {
			h.Assert(IsClosedQueue(err), "C11: the consumer is only told about close")
			break
		}
		delivered += 1 + int(dups)
		got = append(got, it.(int64))
	}
	// every insert that completed before Close was called is delivered before closed is reported
	h.Assert(delivered >= waitFor*I, "C11: every insertion that completed before close is delivered before the consumer is told the queue is closed")
	h.Assert(delivered <= P*I, "C11: nothing is delivered that was not inserted")
	// per-producer order (distinct items only)
	for p := 0; p < P; p++ {
		last := -1
		for _, x := range items[p] {
			for gi, g := range got {
				if g == x && gi < last {
					same := false
					for _, y := range items[p] {
						_ = y
					}
					h.Assert(same || c11Dup(items, x), "C11: a producer's items are delivered in the order it inserted them")
				}
				if g == x && gi > last {
					last = gi
					break
				}
			}
		}
	}
}

func c11Dup(items [][]int64, x int64) bool {
	n := 0
	for _, l := range items {
		for _, y := range l {
			if y == x {
				n++
			}
		}
	}
	return n > 1
}

// VerifC11_Wakeup: without Close the consumer performs exactly as many Next calls as there are
// distinct items; a lost wake-up is a reachable deadlock.
func VerifC11_Wakeup(h *zz.H) {
	q := NewQueue()
	P := h.Param("P", 2)
	for p := 0; p < P; p++ {
		x := int64(p + 1)
		go func() { q.Insert(x) }()
	}
	ctx := context.Background()
	sum := int64(0)
	for i := 0; i < P; i++ {
		it, dups, err := q.Next(ctx)
		h.Assert(err == nil && dups == 0, "C11: a waiting consumer is woken by an insertion")
		sum += it.(int64)
	}
	h.Assert(sum == int64(P*(P+1)/2), "C11: every distinct item is delivered exactly once")
}

// VerifC11_Cancel: a consumer waiting on an empty open queue is woken by cancellation of its context.
func VerifC11_Cancel(h *zz.H) {
	q := NewQueue()
	ctx, cancel := context.WithCancel(context.Background())
	ins := h.Range("insert", 0, 1) == 1
	go func() {
		if ins {
			q.Insert(int64(1))
		}
		cancel()
	}()
	n := 0
	for {
		_, _, err := q.Next(ctx)
		if err != nil {
			h.Assert(!IsClosedQueue(err), "C11: cancellation is reported as the context's error")
			break
		}
		n++
	}
	h.Assert(n <= 1, "C11: nothing is delivered twice")
}

// VerifC11_Burst: the same discipline at scale — a backlog of N distinct items (concrete, so the
// scale costs no forks) is drained down to a symbolic remainder, some of the still-pending items
// are inserted again (one of them twice), a new item arrives, and the rest is drained: order of
// first pending insertion, exact duplicate counts, Len = number of distinct pending items - also
// for thresholds, resizing or batching that only sets in once a backlog has grown and shrunk.
func VerifC11_Burst(h *zz.H) {
	q := NewQueue()
	ctx := context.Background()
	N := h.Param("N", 80)
	var model []c11Pending
	for i := 0; i < N; i++ {
		fresh, err := q.Insert(int64(i))
		h.Assert(err == nil && fresh, "C11: insertion into an open queue succeeds")
		model = append(model, c11Pending{int64(i), 0})
	}
	// some of the items were updated while the backlog grew
	for _, i := range []int{0, N / 2, N - 1} {
		q.Insert(int64(i))
		model[i].dups++
	}
	h.Assert(q.Len() == N, "C11: Len is the number of distinct pending items")
	// drain to a remainder of r items (r symbolic: every remainder from 1 to R)
	r := h.Range("remainder", 1, h.Param("R", 24))
	for len(model) > r {
		it, dups, err := q.Next(ctx)
		h.Assert(err == nil && it.(int64) == model[0].item && dups == model[0].dups, "C11: items are delivered in the order of their first pending insertion with their duplicate counts")
		model = model[1:]
	}
	h.Assert(q.Len() == r, "C11: Len is the number of distinct pending items")
	// a still-pending item is updated again (twice), and a new one arrives
	j := h.Range("reinsert", 0, r-1)
	for k := 0; k < 2; k++ {
		fresh, err := q.Insert(model[j].item)
		h.Assert(err == nil && !fresh, "C11: an item inserted again while still pending is not duplicated")
		model[j].dups++
	}
	fresh, err := q.Insert(int64(N))
	h.Assert(err == nil && fresh, "C11: Insert reports whether the item was newly queued")
	model = append(model, c11Pending{int64(N), 0})
	h.Assert(q.Len() == len(model), "C11: the backlog holds one entry per distinct pending item")
	q.Close()
	for len(model) > 0 {
		it, dups, err := q.Next(ctx)
		h.Assert(err == nil, "C11: pending items are delivered even after close")
		if err != nil {
			return
		}
		h.Assert(it.(int64) == model[0].item, "C11: items are delivered in the order of their first pending insertion")
		h.Assert(dups == model[0].dups, "C11: an item is delivered once with the number of extra insertions")
		model = model[1:]
	}
	_, _, err = q.Next(ctx)
	h.Assert(IsClosedQueue(err), "C11: a closed empty queue reports closed")
}
