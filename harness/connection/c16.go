package connection

// C16 — shared gRPC connections are reference-counted correctly. Scripted dial outcomes,
// every interleaving within the preemption bound.

import (
	"context"
	"errors"

	"google.golang.org/grpc"
	zz "github.com/openconfig/gnmi/zzverif"
)

type c16Mon struct {
	h        *zz.H
	inflight map[string]int
	dials    map[string]int
	holders  map[*grpc.ClientConn]int
	closed   map[*grpc.ClientConn]int
}

var c16 *c16Mon

// vConnClose stands for (*grpc.ClientConn).Close: the engine redirects the real method here.
func vConnClose(cc *grpc.ClientConn) error {
	c16.h.Assert(c16.holders[cc] == 0, "C16: a connection handed out is never closed while a holder has not released it")
	c16.closed[cc]++
	c16.h.Assert(c16.closed[cc] == 1, "C16: a connection is closed exactly once")
	return nil
}

var errC16Dial = errors.New("dial refused")

// VerifC16_Refcount: G requesters over 1..2 addresses with scripted dial outcomes
// (success / error / block until the context is cancelled), each releasing 1..2 times.
func VerifC16_Refcount(h *zz.H) {
	mon := &c16Mon{h: h, inflight: map[string]int{}, dials: map[string]int{}, holders: map[*grpc.ClientConn]int{}, closed: map[*grpc.ClientConn]int{}}
	c16 = mon
	G := h.Param("G", 2)
	cancels := h.Range("cancel", 0, 1) == 1
	final := false
	dial := func(ctx context.Context, addr string, _ ...grpc.DialOption) (*grpc.ClientConn, error) {
		mon.inflight[addr]++
		mon.dials[addr]++
		h.Assert(mon.inflight[addr] == 1, "C16: at most one dial per address is in flight")
		// scripted outcome, chosen when the dial happens: success / error / block until cancelled
		// (a blocking dial only when the context will be cancelled, else it would never return)
		hi := 1
		if cancels && !final {
			hi = 2
		}
		o := h.Range("dial_outcome", 0, hi)
		h.Yield() // the dial takes time: others may run meanwhile
		defer func() { mon.inflight[addr]-- }()
		switch o {
		case 0:
			return &grpc.ClientConn{}, nil
		case 1:
			return nil, errC16Dial
		default:
			<-ctx.Done()
			return nil, ctx.Err()
		}
	}
	m, err := NewManagerCustom(map[string]Dial{DEFAULT: dial})
	h.Assert(err == nil, "manager created")
	addrs := []string{"a"}
	if h.Param("ADDRS", 1) == 2 {
		addrs = append(addrs, "b")
	}
	ctx, cancel := context.WithCancel(context.Background())
	done := make(chan bool, G)
	for g := 0; g < G; g++ {
		addr := addrs[h.Range("addr", 0, len(addrs)-1)]
		go func() {
			conn, release, err := m.Connection(ctx, addr, DEFAULT)
			if err == nil {
				h.Assert(conn != nil, "C16: a successful request yields a connection")
				h.Assert(mon.closed[conn] == 0, "C16: a connection handed out has not been closed")
				mon.holders[conn]++
				h.Yield() // use the connection
				h.Assert(mon.closed[conn] == 0, "C16: a connection is never closed while held")
				mon.holders[conn]--
				release()
				if h.Range("release_twice", 0, 1) == 1 {
					release() // releasing twice has no effect
				}
			} else {
				h.Assert(conn == nil, "C16: a failed request yields no connection")
				release() // releasing after a failed request has no effect
			}
			done <- true
		}()
	}
	if cancels {
		go func() { cancel() }()
	}
	for g := 0; g < G; g++ {
		<-done
	}
	h.Quiesce()
	// everything released: every successfully dialled connection was closed exactly once and forgotten
	for cc, n := range mon.holders {
		h.Assert(n == 0, "C16: no holder left")
		h.Assert(mon.closed[cc] == 1, "C16: when the last holder releases a connection it is closed exactly once")
	}
	h.Assert(len(m.conns) == 0, "C16: a released connection is forgotten")
	// the next request dials afresh
	final = true
	for _, a := range addrs {
		before := mon.dials[a]
		_, release, err := m.Connection(context.Background(), a, DEFAULT)
		_ = err
		h.Assert(mon.dials[a] == before+1, "C16: after the last release the next request dials afresh")
		release()
	}
}
