package ctree

// C09 — the path tree is a prefix-free map with consistent wildcard query/delete.
// Differential harnesses: the real tree vs. a branch-free association-list model;
// Delete vs Query on identical trees (both sides real code).

import (
	zz "github.com/openconfig/gnmi/zzverif"
)

type c09Entry struct {
	p    []string
	v    int64
	live bool // symbolic under the engine
}

type c09Model struct{ ents []*c09Entry }

func c09Path(h *zz.H, name string, maxLen int) []string {
	n := h.Range(name+"_len", 0, maxLen)
	p := make([]string, 0, n)
	for i := 0; i < n; i++ {
		p = append(p, h.Atom(name))
	}
	return p
}

// prefixEq: a[:n] == b[:n] element-wise (n <= both lengths).
func c09PrefixEq(a, b []string, n int) bool {
	eq := true
	for i := 0; i < n; i++ {
		eq = zz.And(eq, a[i] == b[i])
	}
	return eq
}

func c09PathEq(a, b []string) bool {
	if len(a) != len(b) {
		return false
	}
	return c09PrefixEq(a, b, len(a))
}

// c09Match is the documented wildcard rule: q matches stored leaf p iff q is no
// longer than p and agrees element-wise ("*" matches anything), or q is exactly one
// longer, its first |p| elements agree and its last element is "*".
func c09Match(q, p []string) bool {
	n := len(q)
	if n > len(p)+1 {
		return false
	}
	m := n
	if m > len(p) {
		m = len(p)
	}
	ok := true
	for i := 0; i < m; i++ {
		ok = zz.And(ok, zz.Or(q[i] == "*", q[i] == p[i]))
	}
	if n == len(p)+1 {
		ok = zz.And(ok, q[n-1] == "*")
	}
	return ok
}

func (m *c09Model) add(p []string, v int64) (fails bool) {
	for _, e := range m.ents {
		if len(e.p) < len(p) { // a stored leaf on the way down
			fails = zz.Or(fails, zz.And(e.live, c09PrefixEq(e.p, p, len(e.p))))
		}
		if len(p) < len(e.p) { // the target is a branch
			fails = zz.Or(fails, zz.And(e.live, c09PrefixEq(e.p, p, len(p))))
		}
	}
	for _, e := range m.ents {
		if len(e.p) == len(p) {
			e.live = zz.And(e.live, zz.Or(fails, !c09PathEq(e.p, p)))
		}
	}
	m.ents = append(m.ents, &c09Entry{p: p, v: v, live: !fails})
	return fails
}

// del removes what q matches (restricted by v < limit when cond is set) and returns the matched flags.
func (m *c09Model) del(q []string, cond bool, limit int64) []bool {
	matched := make([]bool, len(m.ents))
	for i, e := range m.ents {
		mt := zz.And(e.live, c09Match(q, e.p))
		if cond {
			mt = zz.And(mt, e.v < limit)
		}
		matched[i] = mt
		e.live = zz.And(e.live, !mt)
	}
	return matched
}

type c09Leaf struct {
	p []string
	v int64
}

func c09Collect(out *[]c09Leaf) VisitFunc {
	return func(p []string, _ *Leaf, v interface{}) error {
		*out = append(*out, c09Leaf{append([]string{}, p...), v.(int64)})
		return nil
	}
}

// c09SameSet: got lists exactly the model entries for which want[i] holds, each once, with the stored value.
func c09SameSet(m *c09Model, want []bool, got []c09Leaf) bool {
	ok := true
	for _, g := range got {
		in := false
		for i, e := range m.ents {
			in = zz.Or(in, zz.And(want[i], c09PathEq(e.p, g.p), e.v == g.v))
		}
		ok = zz.And(ok, in)
	}
	for i, e := range m.ents {
		in := false
		for _, g := range got {
			in = zz.Or(in, c09PathEq(e.p, g.p))
		}
		ok = zz.And(ok, zz.Implies(want[i], in))
	}
	for i := range got {
		for j := i + 1; j < len(got); j++ {
			ok = zz.And(ok, !c09PathEq(got[i].p, got[j].p))
		}
	}
	return ok
}

func (m *c09Model) liveFlags() []bool {
	r := make([]bool, len(m.ents))
	for i, e := range m.ents {
		r[i] = e.live
	}
	return r
}

// c09Build applies M symbolic mutators (Add or Delete) to every tree in ts and to the model.
func c09Build(h *zz.H, ts []*Tree) *c09Model {
	m := &c09Model{}
	M := h.Param("M", 2)
	L := h.Param("L", 2)
	for k := 0; k < M; k++ {
		if k > 0 && h.Param("DEL", 1) == 1 && h.Range("op", 0, 1) == 1 {
			q := c09Path(h, "d", L+1)
			// D5 (known/fixed): delete on an empty tree, glob running past a leaf
			c09KnownD5(h, m, q)
			m.del(q, false, 0)
			for _, t := range ts {
				t.Delete(q)
			}
			continue
		}
		p := c09Path(h, "p", L)
		v := h.Int64("v")
		fails := m.add(p, v)
		for _, t := range ts {
			err := t.Add(p, v)
			h.Assert((err != nil) == fails, "C09: Add fails exactly when the path crosses a stored leaf or targets a branch")
		}
	}
	return m
}

// c09KnownD5 declares the region of defect D5 for delete path q on model state m.
func c09KnownD5(h *zz.H, m *c09Model, q []string) {
	empty := true
	for _, e := range m.ents {
		empty = zz.And(empty, !e.live)
	}
	h.Known("D5-delete-empty-tree", empty)
	past := false
	for _, e := range m.ents {
		if len(q) >= len(e.p)+2 {
			ag := e.live
			for i := 0; i < len(e.p); i++ {
				ag = zz.And(ag, zz.Or(q[i] == "*", q[i] == e.p[i]))
			}
			past = zz.Or(past, zz.And(ag, q[len(e.p)] == "*"))
		}
	}
	h.Known("D5-glob-past-leaf", past)
}

// VerifC09_Walk: after any mutator sequence Walk reports exactly the model's leaves, each once;
// a failing Add changed nothing.
func VerifC09_Walk(h *zz.H) {
	t := &Tree{}
	m := c09Build(h, []*Tree{t})
	var got []c09Leaf
	t.Walk(c09Collect(&got))
	h.Trace("walk", len(got))
	h.Assert(c09SameSet(m, m.liveFlags(), got), "C09: Walk reports exactly the stored leaves, each once")
}

// VerifC09_Get: Get/GetLeaf/GetLeafValue/IsBranch/Children agree with the model for a symbolic path.
func VerifC09_Get(h *zz.H) {
	t := &Tree{}
	m := c09Build(h, []*Tree{t})
	g := c09Path(h, "g", h.Param("L", 2)+1)
	isLeaf, isNode, isBranch := false, len(g) == 0, false
	var val int64
	for _, e := range m.ents {
		if len(e.p) == len(g) {
			eq := zz.And(e.live, c09PathEq(e.p, g))
			isLeaf = zz.Or(isLeaf, eq)
			val = zz.IteInt(eq, e.v, val)
		}
		if len(e.p) >= len(g) {
			isNode = zz.Or(isNode, zz.And(e.live, c09PrefixEq(e.p, g, len(g))))
		}
		if len(e.p) > len(g) {
			isBranch = zz.Or(isBranch, zz.And(e.live, c09PrefixEq(e.p, g, len(g))))
		}
	}
	node := t.Get(g)
	h.Assert((node != nil) == isNode, "C09: Get finds a node iff some stored path extends the lookup path")
	lv := t.GetLeafValue(g)
	h.Assert((lv != nil) == isLeaf, "C09: GetLeafValue is non-nil exactly for stored leaves")
	if lv != nil {
		h.Assert(lv.(int64) == val, "C09: GetLeafValue returns the stored value")
	}
	leaf := t.GetLeaf(g)
	h.Assert((leaf != nil) == isNode, "C09: GetLeaf returns the node handle")
	if leaf != nil {
		x := leaf.Value()
		if isB := node.IsBranch(); !isB {
			h.Assert(zz.Or(!isLeaf, x != nil), "C09: leaf handle yields the value")
		}
	}
	h.Assert(node.IsBranch() == isBranch, "C09: IsBranch iff a stored path strictly extends the lookup path")
	ch := node.Children()
	h.Assert((ch != nil) == isBranch, "C09: Children non-nil exactly for branches")
	// every child name is the next element of some live stored path below g, and vice versa
	okc := true
	for name := range ch {
		in := false
		for _, e := range m.ents {
			if len(e.p) > len(g) {
				in = zz.Or(in, zz.And(e.live, c09PrefixEq(e.p, g, len(g)), e.p[len(g)] == name))
			}
		}
		okc = zz.And(okc, in)
	}
	for _, e := range m.ents {
		if len(e.p) > len(g) {
			in := false
			for name := range ch {
				in = zz.Or(in, e.p[len(g)] == name)
			}
			okc = zz.And(okc, zz.Implies(zz.And(e.live, c09PrefixEq(e.p, g, len(g))), in))
		}
	}
	h.Assert(okc, "C09: Children lists exactly the next elements of stored paths")
}

// VerifC09_Query: Query reports exactly the stored leaves matching the wildcard rule, each once.
func VerifC09_Query(h *zz.H) {
	t := &Tree{}
	m := c09Build(h, []*Tree{t})
	q := c09Path(h, "q", h.Param("L", 2)+2)
	want := make([]bool, len(m.ents))
	for i, e := range m.ents {
		want[i] = zz.And(e.live, c09Match(q, e.p))
	}
	var got []c09Leaf
	t.Query(q, c09Collect(&got))
	h.Trace("query", len(got))
	h.Assert(c09SameSet(m, want, got), "C09: Query reports exactly the matching stored leaves, each once")
}

func c09Less(a, b []string) bool {
	// strict lexicographic order on element sequences
	var rec func(i int) bool
	rec = func(i int) bool {
		if i >= len(a) {
			return i < len(b)
		}
		if i >= len(b) {
			return false
		}
		return zz.Or(a[i] < b[i], zz.And(a[i] == b[i], rec(i+1)))
	}
	return rec(0)
}

// VerifC09_WalkSorted: sorted walk is in strictly increasing lexicographic order and equals Walk
// as a set, under every map iteration order.
func VerifC09_WalkSorted(h *zz.H) {
	t := &Tree{}
	m := c09Build(h, []*Tree{t})
	var got []c09Leaf
	t.WalkSorted(c09Collect(&got))
	h.Assert(c09SameSet(m, m.liveFlags(), got), "C09: WalkSorted reports exactly the stored leaves")
	ok := true
	for i := 1; i < len(got); i++ {
		ok = zz.And(ok, c09Less(got[i-1].p, got[i].p))
	}
	h.Assert(ok, "C09: WalkSorted is in strictly increasing lexicographic order")
}

// VerifC09_Delete: Delete(q) removes and returns exactly what Query(q) reports on an identical
// tree; emptied branches are pruned so that a later Add succeeds iff the model says so.
func VerifC09_Delete(h *zz.H) {
	t1, t2 := &Tree{}, &Tree{}
	m := c09Build(h, []*Tree{t1, t2})
	q := c09Path(h, "q", h.Param("L", 2)+2)
	c09KnownD5(h, m, q)
	var qres []c09Leaf
	t1.Query(q, c09Collect(&qres))
	del := t2.Delete(q)
	h.Trace("delete", len(qres), len(del))
	// (d) oracle-free relation: same path sets
	ok := true
	for _, d := range del {
		in := false
		for _, r := range qres {
			in = zz.Or(in, c09PathEq(d, r.p))
		}
		ok = zz.And(ok, in)
	}
	for _, r := range qres {
		in := false
		for _, d := range del {
			in = zz.Or(in, c09PathEq(d, r.p))
		}
		ok = zz.And(ok, in)
	}
	for i := range del {
		for j := i + 1; j < len(del); j++ {
			ok = zz.And(ok, !c09PathEq(del[i], del[j]))
		}
	}
	h.Assert(ok, "C09: Delete returns exactly the paths Query reports for the same path")
	m.del(q, false, 0)
	var rest []c09Leaf
	t2.Walk(c09Collect(&rest))
	h.Assert(c09SameSet(m, m.liveFlags(), rest), "C09: after Delete exactly the unmatched leaves remain")
	// (e) pruning: a later Add behaves as on the model
	p := c09Path(h, "a", h.Param("L", 2))
	v := h.Int64("av")
	fails := m.add(p, v)
	err := t2.Add(p, v)
	h.Assert((err != nil) == fails, "C09: Add after Delete succeeds iff the model allows it (emptied branches pruned)")
	var fin []c09Leaf
	t2.Walk(c09Collect(&fin))
	h.Assert(c09SameSet(m, m.liveFlags(), fin), "C09: content after Delete+Add equals the model")
}

// VerifC09_DeleteCond: DeleteConditional and WalkDeleted remove exactly the matching leaves that
// satisfy the condition, and call the callback once per removed leaf.
func VerifC09_DeleteCond(h *zz.H) {
	t1, t2 := &Tree{}, &Tree{}
	m := c09Build(h, []*Tree{t1, t2})
	q := c09Path(h, "q", h.Param("L", 2)+2)
	c09KnownD5(h, m, q)
	limit := h.Int64("limit")
	cond := func(v interface{}) bool { return v.(int64) < limit }
	del := t1.DeleteConditional(q, cond)
	calls := 0
	t2.WalkDeleted(q, cond, func(v interface{}) {
		calls++
		_ = v.(int64)
	})
	matched := m.del(q, true, limit)
	ok := true
	for _, d := range del {
		in := false
		for i, e := range m.ents {
			in = zz.Or(in, zz.And(matched[i], c09PathEq(d, e.p)))
		}
		ok = zz.And(ok, in)
	}
	for i, e := range m.ents {
		in := false
		for _, d := range del {
			in = zz.Or(in, c09PathEq(d, e.p))
		}
		ok = zz.And(ok, zz.Implies(matched[i], in))
	}
	h.Assert(ok, "C09: DeleteConditional returns exactly the matching leaves satisfying the condition")
	h.Assert(calls == len(del), "C09: WalkDeleted calls back once per removed leaf")
	var r1, r2 []c09Leaf
	t1.Walk(c09Collect(&r1))
	t2.Walk(c09Collect(&r2))
	h.Assert(c09SameSet(m, m.liveFlags(), r1), "C09: after DeleteConditional exactly the other leaves remain")
	h.Assert(c09SameSet(m, m.liveFlags(), r2), "C09: after WalkDeleted exactly the other leaves remain")
}

// VerifC09_Scale: the same map discipline at scale — N concrete leaves (so the size costs no
// forks) at depths 1..3 under a handful of branches, one symbolic wildcard query/delete, one
// symbolic re-add: Walk/Query/WalkSorted/Delete/Add agree with the model also where thresholds,
// caching or batching set in only once the tree has grown.
func VerifC09_Scale(h *zz.H) {
	t := &Tree{}
	m := &c09Model{}
	N := h.Param("N", 60)
	name := func(pfx string, i int) string {
		return pfx + string(rune('a'+i/26)) + string(rune('a'+i%26))
	}
	var paths [][]string
	for i := 0; i < N; i++ {
		var p []string
		switch i % 3 {
		case 0:
			p = []string{name("l", i)}
		case 1:
			p = []string{"b1", name("m", i)}
		default:
			p = []string{"b2", name("c", i%5), name("n", i)}
		}
		paths = append(paths, p)
		h.Assert(t.Add(p, int64(i)) == nil, "C09: Add of a fresh path succeeds")
		m.add(p, int64(i))
	}
	var got []c09Leaf
	t.Walk(c09Collect(&got))
	h.Assert(len(got) == N && c09SameSet(m, m.liveFlags(), got), "C09: Walk reports exactly the stored leaves, each once")
	// a query chosen among: everything, one branch, one sub-branch, one leaf, leaf/*
	i := h.Range("pick", 0, N-1)
	qs := [][]string{{"*"}, {"b1"}, {"b2", "*"}, {"b2", name("c", i%5)}, paths[i], append(append([]string{}, paths[i]...), "*")}
	q := qs[h.Range("query", 0, len(qs)-1)]
	var seen []c09Leaf
	t.Query(q, c09Collect(&seen))
	want := make([]bool, len(m.ents))
	for k, e := range m.ents {
		want[k] = e.live && c09Match(q, e.p)
	}
	h.Assert(c09SameSet(m, want, seen), "C09: Query reports exactly the stored matching leaves, each once")
	var sorted []c09Leaf
	t.WalkSorted(c09Collect(&sorted))
	ok := len(sorted) == N
	for k := 1; k < len(sorted); k++ {
		ok = ok && c09Less(sorted[k-1].p, sorted[k].p)
	}
	h.Assert(ok, "C09: WalkSorted is in strictly increasing lexicographic order")
	// delete what the query matched, then re-add one of the removed leaves and one new leaf
	removed := t.Delete(q)
	flags := m.del(q, false, 0)
	nrm := 0
	for _, f := range flags {
		if f {
			nrm++
		}
	}
	h.Assert(len(removed) == nrm, "C09: Delete removes and returns exactly the paths Query reports")
	got = nil
	t.Walk(c09Collect(&got))
	h.Assert(c09SameSet(m, m.liveFlags(), got), "C09: after Delete exactly the other leaves remain")
	if flags[i] {
		h.Assert(t.Add(paths[i], int64(1000)) == nil, "C09: a deleted path can be added again")
		m.add(paths[i], 1000)
	}
	h.Assert(t.Add([]string{"b3", "fresh"}, int64(1001)) == nil, "C09: Add of a fresh path succeeds")
	m.add([]string{"b3", "fresh"}, 1001)
	got = nil
	t.Walk(c09Collect(&got))
	h.Assert(c09SameSet(m, m.liveFlags(), got), "C09: Walk reports exactly the stored leaves, each once")
	v := t.GetLeafValue(paths[(i+1)%N])
	h.Assert((v != nil) == !flags[(i+1)%N], "C09: GetLeafValue is non-nil exactly for stored leaves")
}
