package ctree

// C10 — the path tree is safe and per-path atomic under concurrent use. All harnesses run
// under the engine's scheduler (every interleaving within the preemption bound) with the
// writer-preferring RWMutex model and happens-before race detection.

import (
	zz "github.com/openconfig/gnmi/zzverif"
)

func c10Walk(t *Tree) []c09Leaf {
	var got []c09Leaf
	t.Walk(c09Collect(&got))
	return got
}

// VerifC10_Adds: two concurrent Adds (symbolic paths, possibly beneath the same not-yet-existing
// branch, possibly equal or conflicting) and a concurrent reader. The final content equals that of
// one of the two sequential orders; concurrent adds beneath a missing branch both survive.
func VerifC10_Adds(h *zz.H) {
	t := &Tree{}
	L := h.Param("L", 2)
	p1, p2 := c09Path(h, "p1", L), c09Path(h, "p2", L)
	v1, v2 := h.Int64("v1"), h.Int64("v2")
	h.Assume(v1 != v2)
	if h.Range("pre", 0, 1) == 1 {
		t.Add(c09Path(h, "p0", L), int64(0))
	}
	pre := c10Walk(t)
	done := make(chan bool, 3)
	var e1, e2 error
	go func() { e1 = t.Add(p1, v1); done <- true }()
	go func() { e2 = t.Add(p2, v2); done <- true }()
	reads := 0
	go func() {
		switch h.Range("reader", 0, 2) {
		case 0:
			t.Query([]string{"*"}, func([]string, *Leaf, interface{}) error { reads++; return nil })
		case 1:
			t.GetLeafValue(p1)
		default:
			t.Walk(func([]string, *Leaf, interface{}) error { reads++; return nil })
		}
		done <- true
	}()
	<-done
	<-done
	<-done
	got := c10Walk(t)
	// the two sequential outcomes, from the model
	okAny := false
	for order := 0; order < 2; order++ {
		m := &c09Model{}
		for _, l := range pre {
			m.add(l.p, l.v)
		}
		var f1, f2 bool
		if order == 0 {
			f1 = m.add(p1, v1)
			f2 = m.add(p2, v2)
		} else {
			f2 = m.add(p2, v2)
			f1 = m.add(p1, v1)
		}
		okAny = zz.Or(okAny, zz.And((e1 != nil) == f1, (e2 != nil) == f2, c09SameSet(m, m.liveFlags(), got)))
	}
	h.Assert(okAny, "C10: the content after concurrent adds equals that produced by some sequential ordering of them")
}

// VerifC10_DeleteAtomic: a delete running concurrently with a query and an add. The query reports
// every leaf present for its whole duration and nothing absent for its whole duration; the final
// content equals some sequential ordering.
func VerifC10_DeleteAtomic(h *zz.H) {
	t := &Tree{}
	L := h.Param("L", 2)
	a, b := c09Path(h, "a", L), c09Path(h, "b", L)
	h.Assume(t.Add(a, int64(1)) == nil)
	h.Assume(t.Add(b, int64(2)) == nil)
	pre := c10Walk(t)
	q := c09Path(h, "q", L+1) // delete path
	n := c09Path(h, "n", L)   // concurrently added path
	done := make(chan bool, 3)
	var en error
	var seen []c09Leaf
	go func() { t.Delete(q); done <- true }()
	go func() { en = t.Add(n, int64(3)); done <- true }()
	go func() { t.Query([]string{"*"}, c09Collect(&seen)); done <- true }()
	<-done
	<-done
	<-done
	got := c10Walk(t)
	// query stability
	for _, l := range pre {
		deleted := c09Match(q, l.p)
		in := false
		for _, s := range seen {
			in = zz.Or(in, c09PathEq(s.p, l.p))
		}
		overwritten := c09PathEq(n, l.p)
		h.Assert(zz.Or(deleted, overwritten, in), "C10: a query reports every leaf that was present for its whole duration")
	}
	for _, s := range seen {
		was := c09PathEq(s.p, n)
		for _, l := range pre {
			was = zz.Or(was, c09PathEq(s.p, l.p))
		}
		h.Assert(was, "C10: a query reports nothing that was absent for its whole duration")
	}
	// final content: delete-then-add or add-then-delete
	okAny := false
	for order := 0; order < 2; order++ {
		m := &c09Model{}
		for _, l := range pre {
			m.add(l.p, l.v)
		}
		var fn bool
		if order == 0 {
			m.del(q, false, 0)
			fn = m.add(n, 3)
		} else {
			fn = m.add(n, 3)
			m.del(q, false, 0)
		}
		okAny = zz.Or(okAny, zz.And((en != nil) == fn, c09SameSet(m, m.liveFlags(), got)))
	}
	h.Assert(okAny, "C10: a delete is atomic with respect to a concurrent add")
}

// VerifC10_HandleUpdate: a retained leaf handle is updated while the leaf is deleted (and possibly
// re-added) concurrently.
func VerifC10_HandleUpdate(h *zz.H) {
	t := &Tree{}
	p := c09Path(h, "p", h.Param("L", 2))
	h.Assume(len(p) >= 1) // the root node is not a detachable leaf handle
	h.Assume(t.Add(p, int64(1)) == nil)
	l := t.GetLeaf(p)
	done := make(chan bool, 2)
	// D9 (known finding): Delete holds only the root's write lock and reads the leaf without the leaf's lock
	h.Known("D9-leaf-update-vs-delete-race", true, "internalDelete")
	go func() { l.Update(int64(2)); done <- true }()
	go func() { t.Delete(p); done <- true }()
	<-done
	<-done
	h.Assert(len(c10Walk(t)) == 0, "C10: the deleted leaf is gone")
	h.Assert(l.Value().(int64) == 2, "C10: the retained handle holds the updated value")
}

// VerifC10_HandleUpdateRead: handle updates concurrent with lookups, queries and walks of the same leaf.
func VerifC10_HandleUpdateRead(h *zz.H) {
	t := &Tree{}
	p := c09Path(h, "p", h.Param("L", 2))
	h.Assume(t.Add(p, int64(1)) == nil)
	l := t.GetLeaf(p)
	done := make(chan bool, 2)
	var seen int64
	go func() { l.Update(int64(2)); done <- true }()
	go func() {
		switch h.Range("reader", 0, 2) {
		case 0:
			seen = t.GetLeafValue(p).(int64)
		case 1:
			t.Query(p, func(_ []string, _ *Leaf, v interface{}) error { seen = v.(int64); return nil })
		default:
			t.Walk(func(_ []string, _ *Leaf, v interface{}) error { seen = v.(int64); return nil })
		}
		done <- true
	}()
	<-done
	<-done
	h.Assert(seen == 1 || seen == 2, "C10: a reader sees the value before or after a concurrent handle update")
	h.Assert(t.GetLeafValue(p).(int64) == 2, "C10: the update takes effect")
}
