package main

// C01 (CLI request construction) — however the subscription is handed to the CLI (query flags,
// inline proto, proto file) the same request text / query reaches the client library.
// The real executeSubscribe/protoRequestFromFlags/parseQuery run; file reading, text-proto
// parsing and the RPC itself are recording stubs (Stub_<pkg>_<func>, see engine).

import (
	"context"
	"errors"

	"github.com/openconfig/gnmi/cli"
	"github.com/openconfig/gnmi/client"
	zz "github.com/openconfig/gnmi/zzverif"
)

var (
	c01FileText   string
	c01FileErr    bool
	c01Parsed     []string
	c01Displayed  []client.Query
)

func Stub_os_ReadFile(name string) ([]byte, error) {
	if c01FileErr {
		return nil, errors.New("no such file")
	}
	return []byte(c01FileText), nil
}

func Stub_cli_ParseSubscribeProto(p string) (client.Query, error) {
	c01Parsed = append(c01Parsed, p)
	return client.Query{Target: "parsed", Type: client.Stream}, nil
}

func Stub_cli_QueryDisplay(ctx context.Context, query client.Query, cfg *cli.Config) error {
	c01Displayed = append(c01Displayed, query)
	return nil
}

// VerifC01_CLIRequest: -proto, -proto_file (readable or not), both, or neither (query flags).
func VerifC01_CLIRequest(h *zz.H) {
	c01Parsed, c01Displayed = nil, nil
	inline, file := "INLINE-TEXT", "FILE-TEXT"
	c01FileText = file
	*reqProto, *protoFile = "", ""
	how := h.Range("invocation", 0, 3)
	switch how {
	case 0: // query flags
	case 1:
		*reqProto = inline
	case 2:
		*protoFile = "/some/request.textproto"
		c01FileErr = h.Range("file_unreadable", 0, 1) == 1
	default:
		*reqProto = inline
		*protoFile = "/some/request.textproto"
	}
	*queryType = "once"
	cfg.Delimiter = "/"
	*queryFlag = []string{"a/b"}
	q.Queries = nil
	err := executeSubscribe(context.Background())
	switch how {
	case 0:
		h.Assert(err == nil && len(c01Parsed) == 0 && len(c01Displayed) == 1, "C01: query flags build the query without a proto")
		if len(c01Displayed) == 1 {
			qs := c01Displayed[0].Queries
			h.Assert(len(qs) == 1 && len(qs[0]) == 2 && qs[0][0] == "a" && qs[0][1] == "b", "C01: the query flag reaches the client library as its path elements")
		}
	case 1:
		h.Assert(err == nil && len(c01Parsed) == 1 && c01Parsed[0] == inline, "C01: an inline proto request is the request that is parsed and sent")
	case 2:
		if c01FileErr {
			h.Assert(err != nil && len(c01Parsed) == 0 && len(c01Displayed) == 0, "C01: an unreadable proto file is an error")
		} else {
			h.Assert(err == nil && len(c01Parsed) == 1, "C01: a proto file request is parsed")
			if len(c01Parsed) == 1 {
				h.Assert(c01Parsed[0] == file, "C01: the request read from the proto file is the request that is parsed and sent")
			}
		}
	default:
		h.Assert(err != nil && len(c01Parsed) == 0, "C01: -proto and -proto_file together are refused")
	}
	h.Trace("invocation", how, err == nil)
}

// VerifC01_ParseQuery: the query flag reaches the client library as its path elements, for every
// delimiter: E elements of 1..B symbolic ASCII bytes (none of the query syntax characters, not
// the delimiter), joined with a symbolic ASCII delimiter or with a concrete multi-byte one,
// optionally with leading/trailing delimiters and with a keyed element whose key value contains
// the delimiter.
func VerifC01_ParseQuery(h *zz.H) {
	E, B := h.Param("E", 2), h.Param("B", 2)
	var delim string
	multi := h.Range("delimiter_kind", 0, 2)
	switch multi {
	case 0:
		delim = h.Bytes("delim", 1)
		h.Assume(len(delim) == 1 && delim[0] != '[' && delim[0] != ']')
	case 1:
		delim = "·" // U+00B7, two bytes
	default:
		delim = "→" // U+2192, three bytes
	}
	n := h.Range("elements", 1, E)
	var elems []string
	query := ""
	if h.Range("leading_delimiter", 0, 1) == 1 {
		query = delim
	}
	for i := 0; i < n; i++ {
		e := h.Bytes("elem", B)
		h.Assume(e != "")
		for k := 0; k < len(e); k++ {
			h.Assume(e[k] != '[' && e[k] != ']')
			if multi == 0 {
				h.Assume(e[k] != delim[0])
			}
		}
		if i == 0 && h.Param("KEYED", 1) == 1 && h.Range("keyed", 0, 1) == 1 {
			// a key value may contain the delimiter: it is not a separator inside [...]
			e = e + "[k=v" + delim + "w]"
		}
		elems = append(elems, e)
		if i > 0 {
			query += delim
		}
		query += e
	}
	if h.Range("trailing_delimiter", 0, 1) == 1 {
		query += delim
	}
	got, err := parseQuery(query, delim)
	h.Assert(err == nil, "C01: a well-formed query flag is accepted")
	if err != nil {
		return
	}
	ok := len(got) == len(elems)
	if ok {
		for i := range elems {
			ok = zz.And(ok, got[i] == elems[i])
		}
	}
	h.Assert(ok, "C01: the query flag reaches the client library as its path elements, whatever the delimiter")
}
