package main

// C01 (collector wiring) — the real runCollector is executed with recording stubs for files,
// TLS, the tunnel, grpc.NewServer/Register*Server and net.Listen (which fails, so that the
// function ends); the captured manager callbacks are the real closures of runCollector bound to
// the real cache, the captured gNMI server is the real subscribe.Server. A target's updates are
// fed through the Update callback and read back through a ONCE subscription.

import (
	"context"
	"errors"
	"io"
	"net"

	"google.golang.org/grpc"
	"google.golang.org/grpc/credentials"
	"github.com/openconfig/grpctunnel/dialer"
	"github.com/openconfig/grpctunnel/tunnel"
	"google.golang.org/protobuf/proto"
	"github.com/openconfig/gnmi/manager"
	"github.com/openconfig/gnmi/path"
	"github.com/openconfig/gnmi/subscribe"
	zz "github.com/openconfig/gnmi/zzverif"

	gnmipb "github.com/openconfig/gnmi/proto/gnmi"
	tpb "github.com/openconfig/gnmi/proto/target"
)

var (
	c01Config *tpb.Configuration
	c01Mgr    manager.Config
	c01Server gnmipb.GNMIServer
)

func Stub_ioutil_ReadFile(name string) ([]byte, error) { return []byte("config"), nil }

func Stub_prototext_Unmarshal(b []byte, m proto.Message) error {
	cfg := m.(*tpb.Configuration)
	cfg.Target = c01Config.Target
	cfg.Request = c01Config.Request
	return nil
}

func Stub_credentials_NewServerTLSFromFile(cert, key string) (credentials.TransportCredentials, error) {
	return nil, nil
}

func Stub_tunnel_NewServer(sc tunnel.ServerConfig) (*tunnel.Server, error) { return &tunnel.Server{}, nil }

func Stub_dialer_FromServer(ts *tunnel.Server) (*dialer.ServerDialer, error) {
	return &dialer.ServerDialer{}, nil
}

func Stub_grpc_NewServer(opt ...grpc.ServerOption) *grpc.Server { return &grpc.Server{} }

func Stub_manager_NewManager(cfg manager.Config) (*manager.Manager, error) {
	c01Mgr = cfg
	return manager.NewManager(cfg) // inside a stub the real function is meant
}

func Stub_gnmi_RegisterGNMIServer(s grpc.ServiceRegistrar, srv gnmipb.GNMIServer) { c01Server = srv }

func Stub_net_Listen(network, address string) (net.Listener, error) {
	return nil, errors.New("listen refused (harness)")
}

type c01Stream struct {
	grpc.ServerStream
	req   *gnmipb.SubscribeRequest
	recvs int
	sent  []*gnmipb.SubscribeResponse
}

func (s *c01Stream) Context() context.Context { return context.Background() }
func (s *c01Stream) Send(r *gnmipb.SubscribeResponse) error {
	s.sent = append(s.sent, r)
	return nil
}
func (s *c01Stream) Recv() (*gnmipb.SubscribeRequest, error) {
	s.recvs++
	if s.recvs == 1 {
		return s.req, nil
	}
	return nil, io.EOF
}

// c01Once reads the target's state back through the collector's gNMI server.
func c01Once(h *zz.H, srv *subscribe.Server, target string) (leaves []*gnmipb.Notification, err error) {
	sl := &gnmipb.SubscriptionList{Mode: gnmipb.SubscriptionList_ONCE, Prefix: &gnmipb.Path{Target: target}, Subscription: []*gnmipb.Subscription{{Path: &gnmipb.Path{}}}}
	st := &c01Stream{req: &gnmipb.SubscribeRequest{Request: &gnmipb.SubscribeRequest_Subscribe{Subscribe: sl}}}
	err = srv.Subscribe(st)
	for _, r := range st.sent {
		if n := r.GetUpdate(); n != nil {
			if p := path.ToStrings(n.Prefix, false); len(p) > 0 && p[0] == "meta" {
				continue
			}
			if len(n.Update) == 1 {
				if p := path.ToStrings(n.Update[0].Path, false); len(p) > 0 && p[0] == "meta" && len(n.Prefix.GetElem()) == 0 {
					continue
				}
			}
			leaves = append(leaves, n)
		}
	}
	return
}

// VerifC01_Collector: 1..2 configured targets; a symbolic update, then a delete, then Reset.
func VerifC01_Collector(h *zz.H) {
	*configFile, *certFile, *keyFile = "cfg", "cert", "key"
	req := &gnmipb.SubscribeRequest{Request: &gnmipb.SubscribeRequest_Subscribe{Subscribe: &gnmipb.SubscriptionList{}}}
	c01Config = &tpb.Configuration{
		Request: map[string]*gnmipb.SubscribeRequest{"r": req},
		Target:  map[string]*tpb.Target{"t1": {Addresses: []string{"addr1"}, Request: "r"}},
	}
	if h.Range("targets", 1, 2) == 2 {
		c01Config.Target["t2"] = &tpb.Target{Addresses: []string{"addr2"}, Request: "r"}
	}
	err := runCollector(context.Background())
	h.Assert(err != nil, "runCollector ends at the failing listen")
	h.Assert(c01Server != nil && c01Mgr.Update != nil && c01Mgr.Sync != nil && c01Mgr.Reset != nil, "C01: the collector wires the target manager to the cache and serves the cache")
	srv := c01Server.(*subscribe.Server)

	// a target streams one leaf: symbolic path (1..2 names), prefix nil / present, optional origin, int value
	name := h.Atom("leaf")
	h.Assume(name != "meta" && name != "*")
	elems := []*gnmipb.PathElem{{Name: name}}
	if h.Range("two_elems", 0, 1) == 1 {
		n2 := h.Atom("leaf2")
		h.Assume(n2 != "*")
		elems = append(elems, &gnmipb.PathElem{Name: n2})
	}
	n := &gnmipb.Notification{Timestamp: 10, Update: []*gnmipb.Update{{Path: &gnmipb.Path{Elem: elems}, Val: &gnmipb.TypedValue{Value: &gnmipb.TypedValue_IntVal{IntVal: h.Int64("value")}}}}}
	switch h.Range("prefix", 0, 2) {
	case 1:
		n.Prefix = &gnmipb.Path{Target: h.Atom("device_says_target")}
	case 2:
		n.Prefix = &gnmipb.Path{Origin: h.Atom("origin")}
		h.Assume(n.Prefix.Origin != "meta") // an index path starting with "meta" addresses the collector's own metadata subtree
	}
	c01Mgr.Connect("t1")
	c01Mgr.Update("t1", n)
	c01Mgr.Sync("t1")
	got, err := c01Once(h, srv, "t1")
	h.Assert(err == nil, "C01: a client can subscribe to a configured target through the collector")
	h.Assert(len(got) == 1, "C01: every leaf the target streams becomes visible to a client subscribed to that target")
	if len(got) == 1 {
		g := got[0]
		h.Assert(g.Prefix.GetTarget() == "t1", "C01: the leaf is served under the configured target's name")
		wantOrigin := "openconfig"
		if n.Prefix != nil && n.Prefix.Origin != "" {
			wantOrigin = n.Prefix.Origin
		}
		h.Assert(g.Prefix.GetOrigin() == wantOrigin, "C01: the leaf keeps its origin (default openconfig)")
		gp := path.ToStrings(g.Update[0].Path, false)
		ok := len(gp) == len(elems)
		if ok {
			for i := range gp {
				ok = zz.And(ok, gp[i] == elems[i].Name)
			}
		}
		h.Assert(ok, "C01: the leaf is visible with the same path")
		h.Assert(g.Update[0].Val.GetIntVal() == n.Update[0].Val.GetIntVal(), "C01: the leaf is visible with the same value")
	}
	if len(c01Config.Target) == 2 {
		other, _ := c01Once(h, srv, "t2")
		h.Assert(len(other) == 0, "C01: one target's leaves are not served under another target")
	}
	// the target deletes the leaf
	d := &gnmipb.Notification{Timestamp: 20, Delete: []*gnmipb.Path{{Elem: elems}}}
	if n.Prefix != nil {
		d.Prefix = &gnmipb.Path{Origin: n.Prefix.Origin}
	}
	c01Mgr.Update("t1", d)
	got, _ = c01Once(h, srv, "t1")
	h.Assert(len(got) == 0, "C01: every delete the target streams removes the leaf from the client's view")
	// stream ends: Reset empties the target
	c01Mgr.Update("t1", &gnmipb.Notification{Timestamp: 30, Update: n.Update})
	c01Mgr.Reset("t1")
	got, _ = c01Once(h, srv, "t1")
	h.Assert(len(got) == 0, "C01: after the session ends the target's leaves are gone")
}
