package main

// C01 (collector wiring) — the real runCollector is executed with recording stubs for files,
// TLS, the tunnel, grpc.NewServer/Register*Server and net.Listen (which fails, so that the
// function ends); the captured manager callbacks are the real closures of runCollector bound to
// the real cache, the captured gNMI server is the real subscribe.Server. A target's updates are
// fed through the Update callback and read back through a ONCE subscription.

import (
	"context"
	"errors"
	"io"
	"net"

	"google.golang.org/grpc"
	"google.golang.org/grpc/credentials"
	"github.com/openconfig/grpctunnel/dialer"
	"github.com/openconfig/grpctunnel/tunnel"
	"google.golang.org/protobuf/proto"
	"github.com/openconfig/gnmi/client"
	gclient "github.com/openconfig/gnmi/client/gnmi"
	"github.com/openconfig/gnmi/manager"
	"github.com/openconfig/gnmi/path"
	"github.com/openconfig/gnmi/subscribe"
	zz "github.com/openconfig/gnmi/zzverif"

	gnmipb "github.com/openconfig/gnmi/proto/gnmi"
	tpb "github.com/openconfig/gnmi/proto/target"
)

var (
	c01Config *tpb.Configuration
	c01Mgr    manager.Config
	c01Server gnmipb.GNMIServer
)

func Stub_ioutil_ReadFile(name string) ([]byte, error) { return []byte("config"), nil }

func Stub_prototext_Unmarshal(b []byte, m proto.Message) error {
	cfg := m.(*tpb.Configuration)
	cfg.Target = c01Config.Target
	cfg.Request = c01Config.Request
	return nil
}

func Stub_credentials_NewServerTLSFromFile(cert, key string) (credentials.TransportCredentials, error) {
	return nil, nil
}

func Stub_tunnel_NewServer(sc tunnel.ServerConfig) (*tunnel.Server, error) { return &tunnel.Server{}, nil }

func Stub_dialer_FromServer(ts *tunnel.Server) (*dialer.ServerDialer, error) {
	return &dialer.ServerDialer{}, nil
}

func Stub_grpc_NewServer(opt ...grpc.ServerOption) *grpc.Server { return &grpc.Server{} }

func Stub_manager_NewManager(cfg manager.Config) (*manager.Manager, error) {
	c01Mgr = cfg
	return manager.NewManager(cfg) // inside a stub the real function is meant
}

func Stub_gnmi_RegisterGNMIServer(s grpc.ServiceRegistrar, srv gnmipb.GNMIServer) { c01Server = srv }

func Stub_net_Listen(network, address string) (net.Listener, error) {
	return nil, errors.New("listen refused (harness)")
}

type c01Stream struct {
	grpc.ServerStream
	req   *gnmipb.SubscribeRequest
	recvs int
	sent  []*gnmipb.SubscribeResponse
}

func (s *c01Stream) Context() context.Context { return context.Background() }
func (s *c01Stream) Send(r *gnmipb.SubscribeResponse) error {
	s.sent = append(s.sent, r)
	return nil
}
func (s *c01Stream) Recv() (*gnmipb.SubscribeRequest, error) {
	s.recvs++
	if s.recvs == 1 {
		return s.req, nil
	}
	return nil, io.EOF
}

// c01Once reads the target's state back through the collector's gNMI server.
func c01Once(h *zz.H, srv *subscribe.Server, target string) (leaves []*gnmipb.Notification, err error) {
	sl := &gnmipb.SubscriptionList{Mode: gnmipb.SubscriptionList_ONCE, Prefix: &gnmipb.Path{Target: target}, Subscription: []*gnmipb.Subscription{{Path: &gnmipb.Path{}}}}
	st := &c01Stream{req: &gnmipb.SubscribeRequest{Request: &gnmipb.SubscribeRequest_Subscribe{Subscribe: sl}}}
	err = srv.Subscribe(st)
	for _, r := range st.sent {
		if n := r.GetUpdate(); n != nil {
			if p := path.ToStrings(n.Prefix, false); len(p) > 0 && p[0] == "meta" {
				continue
			}
			if len(n.Update) == 1 {
				if p := path.ToStrings(n.Update[0].Path, false); len(p) > 0 && p[0] == "meta" && len(n.Prefix.GetElem()) == 0 {
					continue
				}
			}
			leaves = append(leaves, n)
		}
	}
	return
}

// VerifC01_Collector: 1..2 configured targets; a symbolic update, then a delete, then Reset.
func VerifC01_Collector(h *zz.H) {
	*configFile, *certFile, *keyFile = "cfg", "cert", "key"
	req := &gnmipb.SubscribeRequest{Request: &gnmipb.SubscribeRequest_Subscribe{Subscribe: &gnmipb.SubscriptionList{}}}
	c01Config = &tpb.Configuration{
		Request: map[string]*gnmipb.SubscribeRequest{"r": req},
		Target:  map[string]*tpb.Target{"t1": {Addresses: []string{"addr1"}, Request: "r"}},
	}
	if h.Range("targets", 1, 2) == 2 {
		c01Config.Target["t2"] = &tpb.Target{Addresses: []string{"addr2"}, Request: "r"}
	}
	err := runCollector(context.Background())
	h.Assert(err != nil, "runCollector ends at the failing listen")
	h.Assert(c01Server != nil && c01Mgr.Update != nil && c01Mgr.Sync != nil && c01Mgr.Reset != nil, "C01: the collector wires the target manager to the cache and serves the cache")
	srv := c01Server.(*subscribe.Server)

	// a target streams one leaf: symbolic path (1..2 names), prefix nil / present, optional origin, int value
	name := h.Atom("leaf")
	h.Assume(name != "meta" && name != "*")
	elems := []*gnmipb.PathElem{{Name: name}}
	if h.Range("two_elems", 0, 1) == 1 {
		n2 := h.Atom("leaf2")
		h.Assume(n2 != "*")
		elems = append(elems, &gnmipb.PathElem{Name: n2})
	}
	n := &gnmipb.Notification{Timestamp: 10, Update: []*gnmipb.Update{{Path: &gnmipb.Path{Elem: elems}, Val: &gnmipb.TypedValue{Value: &gnmipb.TypedValue_IntVal{IntVal: h.Int64("value")}}}}}
	switch h.Range("prefix", 0, 2) {
	case 1:
		n.Prefix = &gnmipb.Path{Target: h.Atom("device_says_target")}
	case 2:
		n.Prefix = &gnmipb.Path{Origin: h.Atom("origin")}
		h.Assume(n.Prefix.Origin != "meta") // an index path starting with "meta" addresses the collector's own metadata subtree
	}
	c01Mgr.Connect("t1")
	c01Mgr.Update("t1", n)
	c01Mgr.Sync("t1")
	got, err := c01Once(h, srv, "t1")
	h.Assert(err == nil, "C01: a client can subscribe to a configured target through the collector")
	h.Assert(len(got) == 1, "C01: every leaf the target streams becomes visible to a client subscribed to that target")
	if len(got) == 1 {
		g := got[0]
		h.Assert(g.Prefix.GetTarget() == "t1", "C01: the leaf is served under the configured target's name")
		wantOrigin := "openconfig"
		if n.Prefix != nil && n.Prefix.Origin != "" {
			wantOrigin = n.Prefix.Origin
		}
		h.Assert(g.Prefix.GetOrigin() == wantOrigin, "C01: the leaf keeps its origin (default openconfig)")
		gp := path.ToStrings(g.Update[0].Path, false)
		ok := len(gp) == len(elems)
		if ok {
			for i := range gp {
				ok = zz.And(ok, gp[i] == elems[i].Name)
			}
		}
		h.Assert(ok, "C01: the leaf is visible with the same path")
		h.Assert(g.Update[0].Val.GetIntVal() == n.Update[0].Val.GetIntVal(), "C01: the leaf is visible with the same value")
	}
	if len(c01Config.Target) == 2 {
		other, _ := c01Once(h, srv, "t2")
		h.Assert(len(other) == 0, "C01: one target's leaves are not served under another target")
	}
	// the target deletes the leaf
	d := &gnmipb.Notification{Timestamp: 20, Delete: []*gnmipb.Path{{Elem: elems}}}
	if n.Prefix != nil {
		d.Prefix = &gnmipb.Path{Origin: n.Prefix.Origin}
	}
	c01Mgr.Update("t1", d)
	got, _ = c01Once(h, srv, "t1")
	h.Assert(len(got) == 0, "C01: every delete the target streams removes the leaf from the client's view")
	// stream ends: Reset empties the target
	c01Mgr.Update("t1", &gnmipb.Notification{Timestamp: 30, Update: n.Update})
	c01Mgr.Reset("t1")
	got, _ = c01Once(h, srv, "t1")
	h.Assert(len(got) == 0, "C01: after the session ends the target's leaves are gone")
}

// ---------------------------------------------------------------------------------------------
// VerifC01_Pipeline: target -> collector glue -> cache -> Subscribe server -> gNMI client decode
// -> client-library cache, in one process. The transport is replaced by handing the protobuf
// objects over: gnmi.NewGNMIClient returns a client whose Subscribe stream runs the collector's
// real Subscribe server on the request the real client library built and hands back the
// responses the server sent.

type c01GNMIClient struct {
	gnmipb.GNMIClient
	srv *subscribe.Server
}

func (c *c01GNMIClient) Subscribe(ctx context.Context, opts ...grpc.CallOption) (gnmipb.GNMI_SubscribeClient, error) {
	return &c01ClientStream{srv: c.srv}, nil
}

type c01ClientStream struct {
	grpc.ClientStream
	srv     *subscribe.Server
	started bool
	reqs    chan *gnmipb.SubscribeRequest  // client -> server
	resps   chan *gnmipb.SubscribeResponse // server -> client
	done    chan error                     // the server's Subscribe returned
	err     error
	ended   bool
}

// c01ServerSide is the server's end of the in-process stream.
type c01ServerSide struct {
	grpc.ServerStream
	cs *c01ClientStream
}

func (s *c01ServerSide) Context() context.Context { return context.Background() }
func (s *c01ServerSide) Send(r *gnmipb.SubscribeResponse) error {
	s.cs.resps <- r
	return nil
}
func (s *c01ServerSide) Recv() (*gnmipb.SubscribeRequest, error) {
	r, ok := <-s.cs.reqs
	if !ok {
		return nil, io.EOF
	}
	return r, nil
}

func (s *c01ClientStream) Send(r *gnmipb.SubscribeRequest) error {
	if !s.started {
		s.started = true
		s.reqs = make(chan *gnmipb.SubscribeRequest, 8)
		s.resps = make(chan *gnmipb.SubscribeResponse, 64)
		s.done = make(chan error, 1)
		go func() { s.done <- s.srv.Subscribe(&c01ServerSide{cs: s}) }()
	}
	s.reqs <- r
	return nil
}

func (s *c01ClientStream) Recv() (*gnmipb.SubscribeResponse, error) {
	if s.ended {
		if s.err != nil {
			return nil, s.err
		}
		return nil, io.EOF
	}
	select {
	case r := <-s.resps:
		return r, nil
	case err := <-s.done:
		// the server ended the RPC: hand over what it had sent before
		select {
		case r := <-s.resps:
			s.done <- err
			return r, nil
		default:
		}
		s.ended, s.err = true, err
		return s.Recv()
	}
}

func (s *c01ClientStream) CloseSend() error {
	if s.started {
		close(s.reqs)
	}
	return nil
}

func Stub_gnmi_NewGNMIClient(cc grpc.ClientConnInterface) gnmipb.GNMIClient {
	return &c01GNMIClient{srv: c01Server.(*subscribe.Server)}
}

// c01ClientView subscribes to target through the real client library (CacheClient over the gNMI
// client implementation) and returns the non-metadata leaves of the client's tree.
func c01ClientView(h *zz.H, target string) (client.Leaves, error) {
	client.RegisterTest("pipe", func(ctx context.Context, d client.Destination) (client.Impl, error) {
		return gclient.NewFromConn(ctx, nil, d)
	})
	cc := client.New()
	err := cc.Subscribe(context.Background(), client.Query{Addrs: []string{"collector"}, Target: target, Type: client.Once, Queries: []client.Path{{"*"}}}, "pipe")
	var out client.Leaves
	for _, l := range cc.Leaves() {
		if len(l.Path) >= 2 && l.Path[1] == "meta" {
			continue
		}
		out = append(out, l)
	}
	return out, err
}

// c01PathOf builds a path in one of the encodings a target may use and returns it with the
// element strings it denotes.
func c01PathOf(h *zz.H, name string, minForm int) (*gnmipb.Path, []string) {
	if h.Param("SIMPLE", 0) == 1 { // one structured element (the long-lived-client run: encodings are the other run's subject)
		a := h.Atom(name + "_name")
		h.Assume(a != "*")
		return &gnmipb.Path{Elem: []*gnmipb.PathElem{{Name: a}}}, []string{a}
	}
	switch h.Range(name+"_form", minForm, 3) {
	case 0:
		return nil, nil
	case 1: // structured elements, the first optionally keyed
		p := &gnmipb.Path{}
		var s []string
		n := h.Range(name+"_n", 1, h.Param("E", 2))
		for i := 0; i < n; i++ {
			a := h.Atom(name + "_name")
			h.Assume(a != "*")
			e := &gnmipb.PathElem{Name: a}
			s = append(s, a)
			if i == 0 && h.Range(name+"_keyed", 0, 1) == 1 {
				kv := h.Atom(name + "_keyval")
				h.Assume(kv != "*")
				e.Key = map[string]string{"k": kv}
				s = append(s, kv)
			}
			p.Elem = append(p.Elem, e)
		}
		return p, s
	case 2: // deprecated string elements
		p := &gnmipb.Path{}
		var s []string
		n := h.Range(name+"_n", 1, h.Param("E", 2))
		for i := 0; i < n; i++ {
			a := h.Atom(name + "_element")
			h.Assume(a != "*")
			p.Element = append(p.Element, a)
			s = append(s, a)
		}
		return p, s
	default: // present but without elements
		return &gnmipb.Path{}, nil
	}
}

func c01Value(h *zz.H) (*gnmipb.TypedValue, func(interface{}) bool) {
	switch h.Range("arm", 0, 4) {
	case 0:
		v := h.Int64("int")
		return &gnmipb.TypedValue{Value: &gnmipb.TypedValue_IntVal{IntVal: v}}, func(g interface{}) bool { x, ok := g.(int64); return ok && x == v }
	case 1:
		v := h.Atom("str")
		return &gnmipb.TypedValue{Value: &gnmipb.TypedValue_StringVal{StringVal: v}}, func(g interface{}) bool { x, ok := g.(string); return ok && x == v }
	case 2:
		v := h.Bool("bool")
		return &gnmipb.TypedValue{Value: &gnmipb.TypedValue_BoolVal{BoolVal: v}}, func(g interface{}) bool { x, ok := g.(bool); return ok && x == v }
	case 3:
		v := h.Uint64("uint")
		return &gnmipb.TypedValue{Value: &gnmipb.TypedValue_UintVal{UintVal: v}}, func(g interface{}) bool { x, ok := g.(uint64); return ok && x == v }
	default:
		a, b := h.Atom("ll0"), h.Int64("ll1")
		ll := &gnmipb.ScalarArray{Element: []*gnmipb.TypedValue{{Value: &gnmipb.TypedValue_StringVal{StringVal: a}}, {Value: &gnmipb.TypedValue_IntVal{IntVal: b}}}}
		return &gnmipb.TypedValue{Value: &gnmipb.TypedValue_LeaflistVal{LeaflistVal: ll}}, func(g interface{}) bool {
			x, ok := g.([]interface{})
			if !ok || len(x) != 2 {
				return false
			}
			s, ok1 := x[0].(string)
			i, ok2 := x[1].(int64)
			return ok1 && ok2 && s == a && i == b
		}
	}
}

// c01Value2 draws a second value of the same kind as v that differs from it.
func c01Value2(h *zz.H, v *gnmipb.TypedValue) (*gnmipb.TypedValue, func(interface{}) bool) {
	switch x := v.Value.(type) {
	case *gnmipb.TypedValue_IntVal:
		n := h.Int64("int2")
		h.Assume(n != x.IntVal)
		return &gnmipb.TypedValue{Value: &gnmipb.TypedValue_IntVal{IntVal: n}}, func(g interface{}) bool { y, ok := g.(int64); return ok && y == n }
	case *gnmipb.TypedValue_StringVal:
		n := h.Atom("str2")
		h.Assume(n != x.StringVal)
		return &gnmipb.TypedValue{Value: &gnmipb.TypedValue_StringVal{StringVal: n}}, func(g interface{}) bool { y, ok := g.(string); return ok && y == n }
	case *gnmipb.TypedValue_BoolVal:
		n := !x.BoolVal
		return &gnmipb.TypedValue{Value: &gnmipb.TypedValue_BoolVal{BoolVal: n}}, func(g interface{}) bool { y, ok := g.(bool); return ok && y == n }
	case *gnmipb.TypedValue_UintVal:
		n := h.Uint64("uint2")
		h.Assume(n != x.UintVal)
		return &gnmipb.TypedValue{Value: &gnmipb.TypedValue_UintVal{UintVal: n}}, func(g interface{}) bool { y, ok := g.(uint64); return ok && y == n }
	default:
		n := h.Int64("ll2")
		return &gnmipb.TypedValue{Value: &gnmipb.TypedValue_LeaflistVal{LeaflistVal: &gnmipb.ScalarArray{Element: []*gnmipb.TypedValue{{Value: &gnmipb.TypedValue_IntVal{IntVal: n}}}}}}, func(g interface{}) bool {
			y, ok := g.([]interface{})
			if !ok || len(y) != 1 {
				return false
			}
			i, ok := y[0].(int64)
			return ok && i == n
		}
	}
}

func c01SamePath(got client.Path, want []string) bool {
	ok := len(got) == len(want)
	if ok {
		for i := range want {
			ok = zz.And(ok, got[i] == want[i])
		}
	}
	return ok
}

// VerifC01_Pipeline: one leaf streamed by a configured target in any encoding, seen through the
// client library; then deleted (in an encoding chosen independently); then re-sent and the
// session reset.
func VerifC01_Pipeline(h *zz.H) {
	*configFile, *certFile, *keyFile = "cfg", "cert", "key"
	req := &gnmipb.SubscribeRequest{Request: &gnmipb.SubscribeRequest_Subscribe{Subscribe: &gnmipb.SubscriptionList{}}}
	c01Config = &tpb.Configuration{
		Request: map[string]*gnmipb.SubscribeRequest{"r": req},
		Target:  map[string]*tpb.Target{"t1": {Addresses: []string{"addr1"}, Request: "r"}, "t2": {Addresses: []string{"addr2"}, Request: "r"}},
	}
	err := runCollector(context.Background())
	h.Assert(err != nil && c01Server != nil && c01Mgr.Update != nil, "C01: the collector wires the target manager to the cache and serves the cache")

	// what the target streams
	origin := ""
	var prefix *gnmipb.Path
	var pstr []string
	if h.Range("has_prefix", 0, 1) == 1 {
		prefix, pstr = c01PathOf(h, "prefix", 1)
		prefix.Target = h.Atom("device_says_target")
		if h.Range("has_origin", 0, 1) == 1 {
			origin = h.Atom("origin")
			h.Assume(origin != "meta" && origin != "*" && origin != "")
			prefix.Origin = origin
		}
	}
	upath, ustr := c01PathOf(h, "upd", 1)
	h.Assume(len(pstr)+len(ustr) > 0)
	val, sameVal := c01Value(h)
	want := []string{"t1", "openconfig"}
	if origin != "" {
		want[1] = origin
	}
	want = append(append(want, pstr...), ustr...)
	n := &gnmipb.Notification{Timestamp: 10, Prefix: prefix, Update: []*gnmipb.Update{{Path: upath, Val: val}}}

	c01Mgr.Connect("t1")
	c01Mgr.Update("t1", n)
	c01Mgr.Sync("t1")
	got, err := c01ClientView(h, "t1")
	h.Assert(err == nil, "C01: a client can subscribe to a configured target through the collector")
	h.Assert(len(got) == 1, "C01: every leaf the target streams becomes visible to a client of the collector (exactly that leaf)")
	if len(got) == 1 {
		h.Assert(c01SamePath(got[0].Path, want), "C01: the client sees the leaf under the same path (target, origin, prefix and path elements, keys, either encoding)")
		h.Assert(sameVal(got[0].Val), "C01: the client sees the leaf with the same value")
	}
	other, _ := c01ClientView(h, "t2")
	h.Assert(len(other) == 0, "C01: one target's leaves are not shown under another target")

	// the target deletes the leaf: the same element strings, split between prefix and path and
	// encoded independently of the update
	all := append(append([]string{}, pstr...), ustr...)
	cut := h.Range("del_prefix_len", 0, len(all))
	d := &gnmipb.Notification{Timestamp: 20}
	mk := func(s []string, deprecated bool) *gnmipb.Path {
		p := &gnmipb.Path{}
		for _, e := range s {
			if deprecated {
				p.Element = append(p.Element, e)
			} else {
				p.Elem = append(p.Elem, &gnmipb.PathElem{Name: e})
			}
		}
		return p
	}
	if cut > 0 || origin != "" || h.Range("del_has_prefix", 0, 1) == 1 {
		d.Prefix = mk(all[:cut], h.Range("del_prefix_deprecated", 0, 1) == 1)
		d.Prefix.Origin = origin
	}
	d.Delete = []*gnmipb.Path{mk(all[cut:], h.Range("del_path_deprecated", 0, 1) == 1)}
	c01Mgr.Update("t1", d)
	got, _ = c01ClientView(h, "t1")
	h.Assert(len(got) == 0, "C01: every delete the target streams removes the leaf from the client's view")

	// re-sent, then the session ends
	c01Mgr.Update("t1", &gnmipb.Notification{Timestamp: 30, Prefix: prefix, Update: []*gnmipb.Update{{Path: upath, Val: val}}})
	got, _ = c01ClientView(h, "t1")
	h.Assert(len(got) == 1, "C01: a leaf streamed again after its delete is visible again")
	if h.Param("POLL", 0) == 1 {
		// a long-lived client (POLL): it holds the leaf, the target then rewrites it with a new
		// value - at a newer or at the SAME timestamp (the cache accepts a different value at an
		// equal timestamp) - and the client polls again: its view follows the target
		pc := client.New()
		err := pc.Subscribe(context.Background(), client.Query{Addrs: []string{"collector"}, Target: "t1", Type: client.Poll, Queries: []client.Path{{"*"}}}, "pipe")
		h.Assert(err == nil, "C01: a POLL client can subscribe through the collector")
		val2, sameVal2 := c01Value2(h, val)
		ts2 := int64(30 + h.Range("rewrite_ts_advance", 0, 1))
		c01Mgr.Update("t1", &gnmipb.Notification{Timestamp: ts2, Prefix: prefix, Update: []*gnmipb.Update{{Path: upath, Val: val2}}})
		h.Assert(pc.Poll() == nil, "C01: a poll trigger is answered")
		var pgot client.Leaves
		for _, l := range pc.Leaves() {
			if len(l.Path) >= 2 && l.Path[1] == "meta" {
				continue
			}
			pgot = append(pgot, l)
		}
		h.Assert(len(pgot) == 1 && c01SamePath(pgot[0].Path, want), "C01: a long-lived client still sees exactly the target's leaf")
		if len(pgot) == 1 {
			h.Assert(sameVal2(pgot[0].Val), "C01: once the streams quiesce a long-lived client's view shows the target's final value (no stale leaf)")
		}
	}
	c01Mgr.Reset("t1")
	got, _ = c01ClientView(h, "t1")
	h.Assert(len(got) == 0, "C01: after the session ends the target's leaves are gone from the client's view")
}
