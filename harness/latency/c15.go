package latency

// C15 (latency part) — statistics exported for a window are bounded by the smallest and
// largest latency observed in that window, up to the averaging precision.

import (
	"time"

	zz "github.com/openconfig/gnmi/zzverif"
)

type c15Set struct {
	name string
	v    int64
}

type c15Meta struct{ sets []c15Set }

func (m *c15Meta) SetInt(name string, v int64) error {
	m.sets = append(m.sets, c15Set{name, v})
	return nil
}

// VerifC15_Latency: R refresh rounds exactly one update period apart, 0..S samples per round
// with symbolic latencies (negative and zero included) and symbolic clock readings.
func VerifC15_Latency(h *zz.H) {
	const period = int64(10)
	k := h.Range("window_periods", 1, 2)
	size := time.Duration(int64(k) * period)
	prec := []time.Duration{time.Nanosecond, time.Microsecond, time.Millisecond}[h.Range("precision", 0, 2)]
	var clock int64
	Now = func() time.Time { return time.Unix(0, clock) }
	l := New([]time.Duration{size}, &Options{AvgPrecision: prec})
	t0 := h.Int64("t0")
	h.Assume(t0 > 0 && t0 < 1<<50)
	R, S := h.Param("R", 3), h.Param("S", 2)
	type sample struct {
		round int
		lat   int64
	}
	var samples []sample
	avgName, maxName, minName := MetadataName(size, Avg), MetadataName(size, Max), MetadataName(size, Min)
	for r := 1; r <= R; r++ {
		ns := h.Range("nsamples", 0, S)
		for i := 0; i < ns; i++ {
			at := h.Int64("at") // clock reading when the sample is computed: within this period
			h.Assume(at > t0+int64(r-1)*period && at <= t0+int64(r)*period)
			lat := h.Int64("lat")
			h.Assume(lat > -(1<<40) && lat < 1<<40)
			clock = at
			l.Compute(time.Unix(0, at-lat))
			samples = append(samples, sample{r, lat})
		}
		clock = t0 + int64(r)*period
		m := &c15Meta{}
		l.UpdateReset(m)
		// the sample set of the last k update periods
		var S []int64
		for _, s := range samples {
			if s.round > r-k {
				S = append(S, s.lat)
			}
		}
		h.Trace("exported", len(m.sets))
		for _, e := range m.sets {
			h.Assert(len(S) > 0, "C15: latency statistics are exported only for a window that has samples")
			if len(S) == 0 {
				continue
			}
			lo, hi := S[0], S[0]
			for _, x := range S[1:] {
				lo = zz.IteInt(x < lo, x, lo)
				hi = zz.IteInt(x > hi, x, hi)
			}
			switch e.name {
			case avgName:
				p := int64(prec)
				h.Assert(e.v > lo-p && e.v < hi+p, "C15: exported average latency lies within (min-precision, max+precision) of the window's samples")
			case maxName:
				h.Assert(e.v >= lo && e.v <= hi, "C15: exported maximum latency is bounded by the window's samples")
			case minName:
				h.Assert(e.v >= lo && e.v <= hi, "C15: exported minimum latency is bounded by the window's samples")
			default:
				h.Fail("C15: unknown latency statistic exported")
			}
		}
	}
}

// VerifC15_LatencyJitter: refreshes are NOT on the exact period grid (ticker jitter, an extra
// refresh from a target Reset between ticks): R refreshes at symbolic increasing instants. The
// window keeps whole slots, so the sample set of a refresh at T is that of the slots ending after
// T - size (slot granularity); exported statistics must be bounded by those samples.
func VerifC15_LatencyJitter(h *zz.H) {
	const period = int64(10)
	size := time.Duration(2 * period)
	var clock int64
	Now = func() time.Time { return time.Unix(0, clock) }
	l := New([]time.Duration{size}, nil)
	t0 := h.Int64("t0")
	h.Assume(t0 > 0 && t0 < 1<<50)
	R := h.Param("R", 3)
	type sample struct {
		round int
		lat   int64
	}
	var samples []sample
	ends := []int64{t0}
	avgName, maxName, minName := MetadataName(size, Avg), MetadataName(size, Max), MetadataName(size, Min)
	prev := t0
	for r := 1; r <= R; r++ {
		T := h.Int64("refresh_at")
		h.Assume(T > prev && T <= prev+3*period)
		if h.Range("sample", 0, 1) == 1 {
			at := h.Int64("at")
			h.Assume(at > prev && at <= T)
			lat := h.Int64("lat")
			h.Assume(lat > -(1<<40) && lat < 1<<40)
			clock = at
			l.Compute(time.Unix(0, at-lat))
			samples = append(samples, sample{r, lat})
		}
		clock = T
		m := &c15Meta{}
		l.UpdateReset(m)
		ends = append(ends, T)
		prev = T
		for _, e := range m.sets {
			// samples of the slots that end after T - size
			any := false
			var lo, hi int64
			for _, s := range samples {
				in := ends[s.round] > T-int64(size)
				lo = zz.IteInt(zz.And(in, zz.Or(!any, s.lat < lo)), s.lat, lo)
				hi = zz.IteInt(zz.And(in, zz.Or(!any, s.lat > hi)), s.lat, hi)
				any = zz.Or(any, in)
			}
			h.Assert(any, "C15: latency statistics are exported only for a window that has samples")
			switch e.name {
			case avgName:
				h.Assert(zz.Implies(any, zz.And(e.v >= lo, e.v <= hi)), "C15: exported average latency is bounded by the samples of the window's slots (off-grid refresh)")
			case maxName:
				h.Assert(zz.Implies(any, zz.And(e.v >= lo, e.v <= hi)), "C15: exported maximum latency is bounded by the samples of the window's slots (off-grid refresh)")
			case minName:
				h.Assert(zz.Implies(any, zz.And(e.v >= lo, e.v <= hi)), "C15: exported minimum latency is bounded by the samples of the window's slots (off-grid refresh)")
			}
		}
	}
}
