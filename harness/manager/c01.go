package manager

// C01 (shared requests) — several configured targets may share one subscription request; the
// request sent for a target names that target and the shared template is never modified.

import (
	"context"
	"errors"
	"io"

	"google.golang.org/grpc"
	"google.golang.org/protobuf/proto"
	"github.com/openconfig/gnmi/cache"
	"github.com/openconfig/gnmi/ctree"
	zz "github.com/openconfig/gnmi/zzverif"

	gpb "github.com/openconfig/gnmi/proto/gnmi"
	tpb "github.com/openconfig/gnmi/proto/target"
)

// VerifC01_CustomizeRequest: the per-target request is a private copy of the shared template.
func VerifC01_CustomizeRequest(h *zz.H) {
	sl := &gpb.SubscriptionList{Mode: gpb.SubscriptionList_STREAM, Subscription: []*gpb.Subscription{{Path: &gpb.Path{Elem: []*gpb.PathElem{{Name: h.Atom("elem")}}}}}}
	switch h.Range("prefix", 0, 2) {
	case 1:
		sl.Prefix = &gpb.Path{}
	case 2:
		sl.Prefix = &gpb.Path{Target: h.Atom("template_target"), Origin: h.Atom("origin")}
	}
	tmpl := &gpb.SubscribeRequest{Request: &gpb.SubscribeRequest_Subscribe{Subscribe: sl}}
	if h.Range("poll_request", 0, 1) == 1 {
		tmpl = &gpb.SubscribeRequest{Request: &gpb.SubscribeRequest_Poll{Poll: &gpb.Poll{}}}
	}
	before := proto.Clone(tmpl).(*gpb.SubscribeRequest)
	a, b := h.Atom("target_a"), h.Atom("target_b")
	ra := customizeRequest(a, tmpl)
	rb := customizeRequest(b, tmpl)
	h.Assert(proto.Equal(before, tmpl), "C01: the shared request template is never modified (targets sharing a request do not see each other's name)")
	if tmpl.GetSubscribe() != nil {
		h.Assert(ra.GetSubscribe().GetPrefix().GetTarget() == a, "C01: the request sent for a target names that target")
		h.Assert(rb.GetSubscribe().GetPrefix().GetTarget() == b, "C01: the request sent for a target names that target")
		h.Assert(ra.GetSubscribe().GetPrefix() != rb.GetSubscribe().GetPrefix(), "C01: per-target requests do not share their prefix object")
		// everything else is the template's
		ra.GetSubscribe().Prefix.Target = before.GetSubscribe().GetPrefix().GetTarget()
		if before.GetSubscribe().GetPrefix() != nil {
			h.Assert(proto.Equal(ra, before), "C01: apart from the target name the request sent equals the configured one")
		}
	}
	h.Trace("customized", ra != nil)
}

// ---------------------------------------------------------------------------------------------
// VerifC01_ManagerHandover: target -> manager -> cache across a reconnect. The manager's
// callbacks are wired to a real cache the way the collector wires them (Update stamps the target
// into the prefix and feeds cache.GnmiUpdate; Connect/Sync/Reset go to the cache). The target's
// first stream carries leaves a and b and then ends - cleanly (io.EOF) or with an error; the
// manager re-subscribes; the second stream carries only a (the target no longer has b). Once the
// streams quiesce the cache holds the target's final state: a with its new value, no stale b.

type c01Stream struct {
	grpc.ClientStream
	ctx  context.Context
	msgs []*gpb.SubscribeResponse
	end  error // returned after the messages; nil = stay silent until the context ends
	pos  int
	done chan bool
}

func (s *c01Stream) Send(*gpb.SubscribeRequest) error { return nil }
func (s *c01Stream) CloseSend() error                 { return nil }
func (s *c01Stream) Context() context.Context         { return s.ctx }
func (s *c01Stream) Recv() (*gpb.SubscribeResponse, error) {
	if s.pos < len(s.msgs) {
		s.pos++
		return s.msgs[s.pos-1], nil
	}
	if s.end != nil {
		return nil, s.end
	}
	select {
	case s.done <- true: // everything this stream had has been handed over
	default:
	}
	<-s.ctx.Done()
	return nil, s.ctx.Err()
}

func c01Leaf(name string, ts, v int64) *gpb.SubscribeResponse {
	return &gpb.SubscribeResponse{Response: &gpb.SubscribeResponse_Update{Update: &gpb.Notification{Timestamp: ts,
		Update: []*gpb.Update{{Path: &gpb.Path{Elem: []*gpb.PathElem{{Name: name}}}, Val: &gpb.TypedValue{Value: &gpb.TypedValue_IntVal{IntVal: v}}}}}}}
}

func VerifC01_ManagerHandover(h *zz.H) {
	c := cache.New([]string{"t"})
	w := &c13World{h: h}
	m, err := NewManager(Config{
		Update: func(name string, n *gpb.Notification) {
			if n.Prefix == nil {
				n.Prefix = &gpb.Path{}
			}
			n.Prefix.Target = name
			c.GnmiUpdate(n)
		},
		Connect:           c.Connect,
		Sync:              c.Sync,
		Reset:             c.Reset,
		ConnectionManager: c13CM{w},
	})
	h.Assert(err == nil, "manager created")
	ts2 := int64(20)
	if h.Range("second_stream_clock", 0, 1) == 1 {
		ts2 = 5 // the target restarted with an earlier clock
	}
	quiet := make(chan bool, 1)
	ends := []error{io.EOF, errors.New("stream broke")}
	streams := 0
	subscribeClient = func(ctx context.Context, conn *grpc.ClientConn) (gpb.GNMI_SubscribeClient, error) {
		streams++
		if streams == 1 {
			return &c01Stream{ctx: ctx, msgs: []*gpb.SubscribeResponse{c01Leaf("a", 10, 1), c01Leaf("b", 10, 2)}, end: ends[h.Range("first_stream_ends", 0, 1)]}, nil
		}
		return &c01Stream{ctx: ctx, msgs: []*gpb.SubscribeResponse{c01Leaf("a", ts2, 10)}, done: quiet}, nil
	}
	h.Assert(m.Add("t", &tpb.Target{Addresses: []string{"addr"}}, &gpb.SubscribeRequest{}) == nil, "C01: a configured target is managed")
	h.Await(quiet) // the second stream has handed over everything it had
	h.Quiesce()
	var got []string
	var vals []int64
	c.Query("t", []string{"*"}, func(p []string, _ *ctree.Leaf, v interface{}) error {
		if len(p) > 0 && p[0] == "meta" {
			return nil
		}
		got = append(got, p[len(p)-1])
		vals = append(vals, v.(*gpb.Notification).Update[0].Val.GetIntVal())
		return nil
	})
	h.Assert(len(got) == 1 && got[0] == "a", "C01: once the streams quiesce the collector holds the target's final state (no missing, extra or stale leaves)")
	if len(got) == 1 {
		h.Assert(vals[0] == 10, "C01: once the streams quiesce the collector holds the target's final values")
	}
	m.Remove("t")
}
