package manager

// C01 (shared requests) — several configured targets may share one subscription request; the
// request sent for a target names that target and the shared template is never modified.

import (
	"google.golang.org/protobuf/proto"
	zz "github.com/openconfig/gnmi/zzverif"

	gpb "github.com/openconfig/gnmi/proto/gnmi"
)

// VerifC01_CustomizeRequest: the per-target request is a private copy of the shared template.
func VerifC01_CustomizeRequest(h *zz.H) {
	sl := &gpb.SubscriptionList{Mode: gpb.SubscriptionList_STREAM, Subscription: []*gpb.Subscription{{Path: &gpb.Path{Elem: []*gpb.PathElem{{Name: h.Atom("elem")}}}}}}
	switch h.Range("prefix", 0, 2) {
	case 1:
		sl.Prefix = &gpb.Path{}
	case 2:
		sl.Prefix = &gpb.Path{Target: h.Atom("template_target"), Origin: h.Atom("origin")}
	}
	tmpl := &gpb.SubscribeRequest{Request: &gpb.SubscribeRequest_Subscribe{Subscribe: sl}}
	if h.Range("poll_request", 0, 1) == 1 {
		tmpl = &gpb.SubscribeRequest{Request: &gpb.SubscribeRequest_Poll{Poll: &gpb.Poll{}}}
	}
	before := proto.Clone(tmpl).(*gpb.SubscribeRequest)
	a, b := h.Atom("target_a"), h.Atom("target_b")
	ra := customizeRequest(a, tmpl)
	rb := customizeRequest(b, tmpl)
	h.Assert(proto.Equal(before, tmpl), "C01: the shared request template is never modified (targets sharing a request do not see each other's name)")
	if tmpl.GetSubscribe() != nil {
		h.Assert(ra.GetSubscribe().GetPrefix().GetTarget() == a, "C01: the request sent for a target names that target")
		h.Assert(rb.GetSubscribe().GetPrefix().GetTarget() == b, "C01: the request sent for a target names that target")
		h.Assert(ra.GetSubscribe().GetPrefix() != rb.GetSubscribe().GetPrefix(), "C01: per-target requests do not share their prefix object")
		// everything else is the template's
		ra.GetSubscribe().Prefix.Target = before.GetSubscribe().GetPrefix().GetTarget()
		if before.GetSubscribe().GetPrefix() != nil {
			h.Assert(proto.Equal(ra, before), "C01: apart from the target name the request sent equals the configured one")
		}
	}
	h.Trace("customized", ra != nil)
}
