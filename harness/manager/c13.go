package manager

// C13 — target manager: strict per-target session discipline; silence after Remove.
// Scripted streams and dial outcomes, timers as bounded environment events, every
// interleaving within the preemption bound.

import (
	"context"
	"errors"
	"io"
	"time"

	"google.golang.org/grpc"
	zz "github.com/openconfig/gnmi/zzverif"

	gpb "github.com/openconfig/gnmi/proto/gnmi"
	tpb "github.com/openconfig/gnmi/proto/target"
)

type c13Stream struct {
	grpc.ClientStream
	ctx      context.Context
	w        *c13World
	id       int
	recvd    int  // messages delivered by this stream
	ended    bool // Recv returned an error
	connects int
	resets   int
	nextSeq  int
}

type c13World struct {
	h        *zz.H
	budget   int // remaining scripted Recv outcomes (then Recv blocks until the context ends)
	streams  []*c13Stream
	cur      *c13Stream // stream of the running session (nil when idle)
	removed  bool
	connected bool
	lastSeq  int
	dials    int
	attempts int
	sig      chan bool // one token per callback (when the harness waits for session events)
}

func (w *c13World) callback(kind string) {
	w.h.Assert(!w.removed, "C13: once Remove returns no further callback for that target is made")
	if w.sig != nil {
		select {
		case w.sig <- true:
		default:
		}
	}
}

func (s *c13Stream) Send(*gpb.SubscribeRequest) error { return nil }
func (s *c13Stream) CloseSend() error                 { return nil }
func (s *c13Stream) Context() context.Context         { return s.ctx }

func (s *c13Stream) Recv() (*gpb.SubscribeResponse, error) {
	w := s.w
	if w.budget > 0 {
		w.budget--
		switch w.h.Range("recv", 0, 3) {
		case 0:
			s.recvd++
			s.nextSeq++
			return &gpb.SubscribeResponse{Response: &gpb.SubscribeResponse_Update{Update: &gpb.Notification{Timestamp: int64(s.id*100 + s.nextSeq)}}}, nil
		case 1:
			s.recvd++
			return &gpb.SubscribeResponse{Response: &gpb.SubscribeResponse_SyncResponse{SyncResponse: true}}, nil
		case 2:
			s.ended = true
			return nil, io.EOF
		default:
			s.ended = true
			return nil, errors.New("stream broke")
		}
	}
	// silence: block until the stream's context ends (receive timeout, Reconnect or Remove)
	<-s.ctx.Done()
	s.ended = true
	return nil, s.ctx.Err()
}

type c13CM struct{ w *c13World }

func (c c13CM) Connection(ctx context.Context, addr, dialer string) (*grpc.ClientConn, func(), error) {
	c.w.dials++
	if c.w.h.Param("DIALFAIL", 1) == 1 && c.w.budget > 0 && c.w.h.Range("dial", 0, 1) == 1 {
		c.w.budget--
		return nil, func() {}, errors.New("dial refused")
	}
	return &grpc.ClientConn{}, func() {}, nil
}

func c13Manager(h *zz.H, w *c13World, recvTimeout time.Duration) *Manager {
	m, err := NewManager(Config{
		Connect: func(string) {
			w.callback("connect")
			s := w.cur
			h.Assert(s != nil && !w.connected, "C13: Connect is reported only for a new stream, once")
			if s != nil {
				h.Assert(s.recvd >= 1, "C13: Connect is reported only after the first message of a new stream")
				s.connects++
			}
			w.connected = true
		},
		Update: func(_ string, n *gpb.Notification) {
			w.callback("update")
			h.Assert(w.connected, "C13: updates are delivered only between a Connect and the Reset that ends that session")
			if w.cur != nil {
				h.Assert(int(n.Timestamp) > w.lastSeq && int(n.Timestamp)/100 == w.cur.id, "C13: updates are delivered in stream order")
				w.lastSeq = int(n.Timestamp)
			}
		},
		Sync: func(string) {
			w.callback("sync")
			h.Assert(w.connected, "C13: syncs are delivered only between a Connect and the Reset that ends that session")
		},
		Reset: func(string) {
			w.callback("reset")
			s := w.cur
			h.Assert(s != nil && s.ended, "C13: Reset follows an ended stream")
			if s != nil {
				s.resets++
				h.Assert(s.resets == 1, "C13: every ended stream is followed by exactly one Reset")
			}
			w.connected = false
			w.cur = nil
		},
		ConnectError:      func(string, error) { w.callback("connectError") },
		ConnectionManager: c13CM{w},
		ReceiveTimeout:    recvTimeout,
	})
	h.Assert(err == nil, "manager created")
	subscribeClient = func(ctx context.Context, conn *grpc.ClientConn) (gpb.GNMI_SubscribeClient, error) {
		w.attempts++
		h.Assert(w.cur == nil && !w.connected, "C13: every ended stream is followed by a Reset before any later stream starts")
		s := &c13Stream{ctx: ctx, w: w, id: len(w.streams) + 1}
		w.streams = append(w.streams, s)
		w.cur = s
		w.lastSeq = 0
		return s, nil
	}
	return m
}

// VerifC13_Sessions: Add, then (at any moment the scheduler picks) an optional forced Reconnect and
// Remove; scripted session outcomes; retry and receive-timeout timers fire as environment events.
func VerifC13_Sessions(h *zz.H) {
	w := &c13World{h: h, budget: h.Param("BUDGET", 2)}
	var rt time.Duration
	if h.Param("RECVTIMEOUT", 0) == 1 {
		rt = time.Second
	}
	m := c13Manager(h, w, rt)
	tgt := &tpb.Target{Addresses: []string{"addr"}}
	h.Assert(m.Add("t", tgt, &gpb.SubscribeRequest{}) == nil, "C13: a new target is added")
	h.Assert(m.Add("t", tgt, &gpb.SubscribeRequest{}) != nil, "C13: adding a duplicate target is refused")
	h.Assert(m.Remove("other") != nil, "C13: removing an unknown target is refused")
	h.Assert(m.Reconnect("other") != nil, "C13: reconnecting an unknown target is refused")
	// a refused Add (no address to dial) leaves the name unknown
	h.Assert(m.Add("noaddr", &tpb.Target{}, &gpb.SubscribeRequest{}) != nil, "C13: adding a target without addresses is refused")
	h.Assert(m.Reconnect("noaddr") != nil, "C13: a target whose Add was refused is unknown (Reconnect)")
	h.Assert(m.Remove("noaddr") != nil, "C13: a target whose Add was refused is unknown (Remove)")
	if h.Range("reconnect", 0, 1) == 1 {
		m.Reconnect("t")
	}
	err := m.Remove("t")
	w.removed = true
	h.Assert(err == nil, "C13: a managed target is removed")
	for _, s := range w.streams {
		if s.ended {
			h.Assert(s.resets == 1, "C13: every ended stream was followed by exactly one Reset before Remove returned")
		}
		h.Assert(s.connects <= 1, "C13: at most one Connect per stream")
		if s.recvd >= 1 {
			h.Assert(s.connects == 1, "C13: Connect is reported after the first message of a stream")
		}
	}
	h.Assert(!w.connected, "C13: no session is left open by Remove")
	h.Assert(m.Remove("t") != nil, "C13: removing twice is refused")
	h.Trace("streams", len(w.streams))
	h.Quiesce() // anything still running must stay silent (checked by callback)
}

// VerifC13_Retry: without Remove, failed sessions keep being retried for as long as the target is
// managed: with the retry timer allowed to fire E times and every session failing at once, there
// are E attempts, and the retry loop is still waiting for its timer afterwards.
func VerifC13_Retry(h *zz.H) {
	w := &c13World{h: h, budget: h.Param("BUDGET", 3)}
	m := c13Manager(h, w, 0)
	tgt := &tpb.Target{Addresses: []string{"addr"}}
	h.Assert(m.Add("t", tgt, &gpb.SubscribeRequest{}) == nil, "C13: a new target is added")
	h.QuiesceAll() // maximal progress: every timer event within the bound has fired
	h.Assert(!h.NegativeTimerDelay(), "C13: failed sessions are retried with backoff (the retry timer is never armed with a negative delay, i.e. the backoff never gives up)")
	// at quiescence: either the script still has outcomes and no timer event is left, or a stream is silent
	ta := m.targets["t"]
	h.Assert(ta != nil, "C13: the target is still managed")
	select {
	case <-ta.finished:
		h.Fail("C13: the retry loop exited although the target is still managed")
	default:
	}
	silent := w.cur != nil && !w.cur.ended
	if !silent && h.EnvEvents() < h.Param("E", 3) {
		h.Fail("C13: a failed session is not retried although the retry timer may still fire")
	}
	h.Assert(w.attempts+w.dials >= 1 || h.EnvEvents() == 0, "C13: an attempt follows the retry timer")
}

// VerifC13_RemoveAfter: like Sessions, but Reconnect/Remove are issued after the harness has
// observed k callbacks (k = 0..2) - so that, within a small preemption bound, they also land while
// a session is connected and between two messages.
func VerifC13_RemoveAfter(h *zz.H) {
	w := &c13World{h: h, budget: h.Param("BUDGET", 2), sig: make(chan bool, 16)}
	var rt time.Duration
	if h.Param("RECVTIMEOUT", 0) == 1 {
		rt = time.Second // the receive-timeout timer may fire while a stream is silent
	}
	m := c13Manager(h, w, rt)
	tgt := &tpb.Target{Addresses: []string{"addr"}}
	h.Assert(m.Add("t", tgt, &gpb.SubscribeRequest{}) == nil, "C13: a new target is added")
	k := h.Range("after_events", h.Param("KMIN", 0), h.Param("K", 2))
	for i := 0; i < k; i++ {
		if h.Param("AWAIT", 0) == 1 {
			h.Await(w.sig) // a path on which fewer callbacks can occur within the bounds is dropped
		} else {
			<-w.sig
		}
	}
	if h.Param("RECONNECT", 1) == 1 && h.Range("reconnect", 0, 1) == 1 {
		m.Reconnect("t")
	}
	err := m.Remove("t")
	w.removed = true
	h.Assert(err == nil, "C13: a managed target is removed")
	for _, s := range w.streams {
		if s.ended {
			h.Assert(s.resets == 1, "C13: every ended stream was followed by exactly one Reset before Remove returned")
		}
		if s.recvd >= 1 {
			h.Assert(s.connects == 1, "C13: Connect is reported after the first message of a stream")
		}
		if s.connects == 1 {
			h.Assert(s.resets == 1, "C13: every session that reported Connect is ended by exactly one Reset")
		}
	}
	h.Assert(!w.connected, "C13: no session is left open by Remove")
	h.Quiesce()
}

// VerifC13_ReAdd: while Remove(t) is in progress another goroutine adds the same name again
// (a configuration reload racing a removal). The duplicate is refused for as long as the old
// target is managed; if the add is accepted the old session has been wound up: its stream ended
// and was Reset before the new incarnation opens a stream, and callbacks of the two incarnations
// never interleave inside a session.
func VerifC13_ReAdd(h *zz.H) {
	w := &c13World{h: h, budget: h.Param("BUDGET", 2), sig: make(chan bool, 16)}
	m := c13Manager(h, w, 0)
	tgt := &tpb.Target{Addresses: []string{"addr"}}
	h.Assert(m.Add("t", tgt, &gpb.SubscribeRequest{}) == nil, "C13: a new target is added")
	k := h.Range("after_events", 0, h.Param("K", 2))
	for i := 0; i < k; i++ {
		h.Await(w.sig)
	}
	readd := make(chan error, 1)
	go func() { readd <- m.Add("t", tgt, &gpb.SubscribeRequest{}) }()
	err := m.Remove("t")
	h.Assert(err == nil, "C13: a managed target is removed")
	if e := <-readd; e == nil {
		h.Cover("re-add accepted after the removal")
		// the name is managed again: remove the new incarnation as well
		h.Assert(m.Remove("t") == nil, "C13: the re-added target is removed")
	} else {
		h.Cover("re-add refused as a duplicate")
		h.Assert(m.Remove("t") != nil, "C13: removing twice is refused")
	}
	w.removed = true
	for _, s := range w.streams {
		if s.ended {
			h.Assert(s.resets == 1, "C13: every ended stream was followed by exactly one Reset before Remove returned")
		}
		if s.recvd >= 1 {
			h.Assert(s.connects == 1, "C13: Connect is reported after the first message of a stream")
		}
		if s.connects == 1 {
			h.Assert(s.resets == 1, "C13: every session that reported Connect is ended by exactly one Reset")
		}
	}
	h.Assert(!w.connected, "C13: no session is left open by Remove")
	h.Quiesce()
}
