package match

// C06 (match part) — the streaming filter relation, removal, and containment of the
// snapshot query (real ctree.Query) in it.

import (
	"github.com/openconfig/gnmi/ctree"
	zz "github.com/openconfig/gnmi/zzverif"
)

type c06Client struct{ n int }

func (c *c06Client) Update(interface{}) { c.n++ }

func c06Path(h *zz.H, name string, maxLen int) []string {
	n := h.Range(name+"_len", 0, maxLen)
	p := make([]string, 0, n)
	for i := 0; i < n; i++ {
		p = append(p, h.Atom(name))
	}
	return p
}

// c06Rel is the property's relation: agree on every element both have; a glob on either side agrees.
func c06Rel(q, p []string) bool {
	n := len(q)
	if len(p) < n {
		n = len(p)
	}
	ok := true
	for i := 0; i < n; i++ {
		ok = zz.And(ok, zz.Or(q[i] == Glob, p[i] == Glob, q[i] == p[i]))
	}
	return ok
}

func c06Empty(b *branch) bool { return len(b.clients) == 0 && len(b.children) == 0 }

// VerifC06_Relation: one registered query, one update: invoked iff the relation holds, at most once;
// never after removal; removal is idempotent and prunes the trie.
func VerifC06_Relation(h *zz.H) {
	m := New()
	q := c06Path(h, "q", h.Param("LQ", 3))
	p := c06Path(h, "p", h.Param("LP", 3))
	cl := &c06Client{}
	remove := m.AddQuery(q, cl)
	m.Update(1, p)
	h.Trace("invoked", cl.n)
	h.Assert(cl.n <= 1, "C06: one registered query is invoked at most once per update")
	h.Assert((cl.n == 1) == c06Rel(q, p), "C06: invoked iff query and update path agree on every common element (glob on either side)")
	before := cl.n
	remove()
	m.Update(2, p)
	h.Assert(cl.n == before, "C06: never invoked after removal")
	remove()
	h.Assert(c06Empty(m.tree), "C06: removal prunes empty branches")
	m.Update(3, p)
	h.Assert(cl.n == before, "C06: removal is idempotent")
}

// VerifC06_Contain: a leaf a snapshot query reports (real ctree.Query) is also offered by the filter.
func VerifC06_Contain(h *zz.H) {
	q := c06Path(h, "q", h.Param("LQ", 3))
	p := c06Path(h, "p", h.Param("LP", 3))
	t := &ctree.Tree{}
	if err := t.Add(p, 1); err != nil {
		return
	}
	found := 0
	t.Query(q, func([]string, *ctree.Leaf, interface{}) error { found++; return nil })
	m := New()
	cl := &c06Client{}
	m.AddQuery(q, cl)
	m.Update(1, p)
	h.Assert(found <= 1, "C06: query reports the leaf at most once")
	h.Assert(zz.Implies(found == 1, cl.n == 1), "C06: every leaf a query for the path returns is also streamed")
}

// VerifC06_Multi: several clients and queries; UpdateOnce with a tracking set delivers at most once
// per client; removing one client's queries leaves other clients on the same paths unaffected.
func VerifC06_Multi(h *zz.H) {
	m := New()
	LQ, LP := h.Param("LQ", 2), h.Param("LP", 2)
	a, b := &c06Client{}, &c06Client{}
	qa1, qa2, qb := c06Path(h, "qa1", LQ), c06Path(h, "qa2", LQ), c06Path(h, "qb", LQ)
	ra1 := m.AddQuery(qa1, a)
	ra2 := m.AddQuery(qa2, a)
	rb := m.AddQuery(qb, b)
	p := c06Path(h, "p", LP)
	m.UpdateOnce(1, p, map[Client]struct{}{})
	h.Assert(a.n <= 1 && b.n <= 1, "C06: UpdateOnce with a tracking set invokes each client at most once")
	h.Assert((a.n == 1) == zz.Or(c06Rel(qa1, p), c06Rel(qa2, p)), "C06: client invoked iff one of its queries matches")
	h.Assert((b.n == 1) == c06Rel(qb, p), "C06: second client invoked iff its query matches")
	// one of the client's two queries is removed: it keeps being offered what the other one matches
	// (two identical queries of one client are one registration: skipped)
	same := len(qa1) == len(qa2)
	if same {
		for i := range qa1 {
			same = same && qa1[i] == qa2[i] // forks
		}
	}
	ra1()
	if !same {
		a1 := a.n
		m.UpdateOnce(3, p, map[Client]struct{}{})
		h.Assert((a.n == a1+1) == c06Rel(qa2, p), "C06: after one of its queries is removed a client is still offered what its remaining query matches")
	}
	ra2()
	an, bn := a.n, b.n
	m.UpdateOnce(2, p, map[Client]struct{}{})
	h.Assert(a.n == an, "C06: removed client is never invoked again")
	h.Assert((b.n == bn+1) == c06Rel(qb, p), "C06: other clients on the same paths are unaffected by a removal")
	rb()
	h.Assert(c06Empty(m.tree), "C06: trie is empty after all removals")
}
