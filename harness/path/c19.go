package path

// C19 (path part) — index conversion is deterministic and independent of map order;
// CompletePath rejects conflicting origins or yields prefix index followed by path index.

import (
	zz "github.com/openconfig/gnmi/zzverif"

	gpb "github.com/openconfig/gnmi/proto/gnmi"
)

type c19KV struct{ k, v string }

// c19Elems builds 0..maxElems elements with 0..maxKeys keys each; spec receives the expected index strings.
func c19Elems(h *zz.H, name string, maxElems, maxKeys int, spec *[]string) []*gpb.PathElem {
	n := h.Range(name+"_n", 0, maxElems)
	var elems []*gpb.PathElem
	for i := 0; i < n; i++ {
		e := &gpb.PathElem{Name: h.Atom(name + "_name")}
		*spec = append(*spec, e.Name)
		nk := h.Range(name+"_nk", 0, maxKeys)
		var kvs []c19KV
		if nk > 0 {
			e.Key = map[string]string{}
		}
		for j := 0; j < nk; j++ {
			kv := c19KV{h.Atom(name + "_key"), h.Atom(name + "_val")}
			for _, o := range kvs {
				h.Assume(o.k != kv.k) // a map has distinct keys
			}
			kvs = append(kvs, kv)
			e.Key[kv.k] = kv.v
		}
		// spec: values ordered by key name
		for a := 1; a < len(kvs); a++ {
			for b := a; b > 0 && kvs[b].k < kvs[b-1].k; b-- {
				kvs[b], kvs[b-1] = kvs[b-1], kvs[b]
			}
		}
		for _, kv := range kvs {
			*spec = append(*spec, kv.v)
		}
		elems = append(elems, e)
	}
	return elems
}

func c19Eq(a, b []string) bool {
	if len(a) != len(b) {
		return false
	}
	ok := true
	for i := range a {
		ok = zz.And(ok, a[i] == b[i])
	}
	return ok
}

// c19Path builds a symbolic path in elem or deprecated element form; spec = its index without target/origin.
func c19Path(h *zz.H, name string, maxElems, maxKeys int, spec *[]string) *gpb.Path {
	p := &gpb.Path{}
	p.Elem = c19Elems(h, name, maxElems, maxKeys, spec)
	if len(p.Elem) == 0 {
		n := h.Range(name+"_nelement", 0, maxElems)
		for i := 0; i < n; i++ {
			s := h.Atom(name + "_element")
			p.Element = append(p.Element, s)
			*spec = append(*spec, s)
		}
	}
	return p
}

// VerifC19_ToStrings: ToStrings equals the specified index list under every map iteration order.
func VerifC19_ToStrings(h *zz.H) {
	var body []string
	p := c19Path(h, "p", h.Param("E", 2), h.Param("K", 3), &body)
	p.Target = h.Atom("target")
	p.Origin = h.Atom("origin")
	withPrefix := h.Range("prefix", 0, 1) == 1
	var spec []string
	if withPrefix {
		if p.Target != "" {
			spec = append(spec, p.Target)
		}
		if p.Origin != "" {
			spec = append(spec, p.Origin)
		}
	}
	spec = append(spec, body...)
	got := ToStrings(p, withPrefix)
	h.Trace("index", len(got))
	h.Assert(c19Eq(got, spec), "C19: index = [target, origin when requested and non-empty] + per element its name then key values ordered by key name")
	again := ToStrings(p, withPrefix)
	h.Assert(c19Eq(got, again), "C19: equal paths index identically (independent of map order)")
	h.Assert(len(ToStrings(nil, withPrefix)) == 0, "C19: nil path indexes as empty")
}

// VerifC19_CompletePath: conflicting origins are rejected, otherwise prefix index followed by path index.
func VerifC19_CompletePath(h *zz.H) {
	var sPre, sPath []string
	var pre, p *gpb.Path
	if h.Range("nilprefix", 0, 1) == 0 {
		pre = c19Path(h, "pre", h.Param("E", 2), h.Param("K", 1), &sPre)
		pre.Target = h.Atom("target")
		pre.Origin = h.Atom("preorigin")
	}
	if h.Range("nilpath", 0, 1) == 0 {
		p = c19Path(h, "path", h.Param("E", 2), h.Param("K", 1), &sPath)
		p.Origin = h.Atom("pathorigin")
	}
	oPre, oPath := pre.GetOrigin(), p.GetOrigin()
	got, err := CompletePath(pre, p)
	wantErr := zz.Or(zz.And(oPre != "", oPath != ""), zz.And(oPre == "", oPath != "", len(sPre) > 0))
	h.Assert((err != nil) == wantErr, "C19: error exactly when both origins are set or an origin in the path meets prefix elements")
	if err != nil {
		return
	}
	var spec []string
	if oPre != "" {
		spec = append(spec, oPre)
	} else if oPath != "" {
		spec = append(spec, oPath)
	}
	spec = append(spec, sPre...)
	spec = append(spec, sPath...)
	h.Trace("complete", len(got))
	h.Assert(c19Eq(got, spec), "C19: combined index = origin, prefix index, path index")
}

// VerifC19_KeyNames: one element with two or three keys whose NAMES are symbolic byte strings
// (1..B ASCII bytes, so that one name may be a prefix of another and continue with any byte) and
// whose values are fixed and distinct: the key values appear ordered by key name - decided on the
// names' content, which an order on arbitrary-string atoms cannot express for code that builds
// composite strings from them.
func VerifC19_KeyNames(h *zz.H) {
	B := h.Param("B", 2)
	nk := h.Range("keys", 2, h.Param("K", 2))
	vals := []string{"v1", "v2", "v3"}
	var kvs []c19KV
	e := &gpb.PathElem{Name: "e", Key: map[string]string{}}
	for j := 0; j < nk; j++ {
		k := h.Bytes("key", B)
		h.Assume(k != "")
		for _, o := range kvs {
			h.Assume(o.k != k)
		}
		kvs = append(kvs, c19KV{k, vals[j]})
		e.Key[k] = vals[j]
	}
	for a := 1; a < len(kvs); a++ {
		for b := a; b > 0 && kvs[b].k < kvs[b-1].k; b-- {
			kvs[b], kvs[b-1] = kvs[b-1], kvs[b]
		}
	}
	spec := []string{"e"}
	for _, kv := range kvs {
		spec = append(spec, kv.v)
	}
	got := ToStrings(&gpb.Path{Elem: []*gpb.PathElem{e}}, false)
	h.Assert(c19Eq(got, spec), "C19: list keys appear as their values ordered by key name right after their element")
}
