package queue

// C20 — the synthetic target's generator emits an ordered, bounded, reproducible stream.

import (
	"google.golang.org/protobuf/proto"
	zz "github.com/openconfig/gnmi/zzverif"

	fpb "github.com/openconfig/gnmi/testing/fake/proto"
)

const c20Big = int64(1) << 61

// what the known finding D13 consists of: rand.Int63n panicking on a non-positive width, the
// generator failing on a later call, emissions going back in time after a timestamp wrapped.
// Any other violation in the same region of configurations is reported.
// value-range / delta edges show up only as the Int63n panic on a non-positive width
var c20D13Width = []string{"invalid argument to Int63n"}

var c20D13 = []string{"invalid argument to Int63n", "never makes the generator fail", "non-decreasing timestamp order", "delay between emissions is never negative"}

// c20Value builds one symbolic value configuration of the given kind and assumes the
// validity rules the generator documents by its own checks; returns the configuration.
//
//	kinds: 0 int range (absolute)  1 int range (cumulative deltas)  2 int list  3 uint range (cumulative)
//	       4 double range (cumulative)  5 string list  6 bool list  7 string-list list  8 constant int  9 delete
func c20Value(h *zz.H, name string, kind int) *fpb.Value {
	v := &fpb.Value{Path: []string{name}}
	v.Repeat = int32(h.Range(name+"_repeat", 0, h.Param("REPEAT", 2)))
	var ts, dmin, dmax int64
	if h.Param("FIXEDTS", 0) == 1 {
		// floating-point focus: the integer side is concrete so that the solver's effort goes to the floats
		ts, dmin, dmax = 5, 1, 1
	} else {
		ts, dmin, dmax = h.Int64(name+"_ts"), h.Int64(name+"_dmin"), h.Int64(name+"_dmax")
	}
	h.Assume(ts >= 0 && dmin >= 0 && dmin <= dmax)
	v.Timestamp = &fpb.Timestamp{Timestamp: ts, DeltaMin: dmin, DeltaMax: dmax}
	if h.Param("SEEDED", 1) == 1 && h.Range(name+"_seeded", 0, 1) == 1 {
		v.Seed = h.Int64(name + "_seed")
		h.Assume(v.Seed != 0)
	}
	// D13 (known finding): configurations at the edge of int64 overflow the width / the timestamp sum
	h.Known("D13-int64-edge-of-range", ts >= c20Big || dmax >= c20Big, c20D13...)
	random := h.Range(name+"_random", 0, 1) == 1
	switch kind {
	case 0, 1:
		val, mn, mx := h.Int64(name+"_val"), h.Int64(name+"_min"), h.Int64(name+"_max")
		h.Assume(mn <= mx && val >= mn && val <= mx)
		r := &fpb.IntRange{Minimum: mn, Maximum: mx}
		if kind == 1 {
			r.DeltaMin, r.DeltaMax = h.Int64(name+"_rdmin"), h.Int64(name+"_rdmax")
			h.Assume(r.DeltaMin <= r.DeltaMax && (r.DeltaMin != 0 || r.DeltaMax != 0))
			h.Known("D13-int64-edge-of-range", r.DeltaMin <= -c20Big || r.DeltaMax >= c20Big, c20D13Width...)
		}
		h.Known("D13-int64-edge-of-range", mn <= -c20Big || mx >= c20Big, c20D13Width...)
		v.Value = &fpb.Value_IntValue{IntValue: &fpb.IntValue{Value: val, Distribution: &fpb.IntValue_Range{Range: r}}}
	case 2:
		n := h.Range(name+"_nopt", 1, 3)
		l := &fpb.IntList{Random: random}
		for i := 0; i < n; i++ {
			l.Options = append(l.Options, h.Int64(name+"_opt"))
		}
		v.Value = &fpb.Value_IntValue{IntValue: &fpb.IntValue{Value: h.Int64(name + "_val"), Distribution: &fpb.IntValue_List{List: l}}}
	case 3:
		val, mn, mx := h.Uint64(name+"_val"), h.Uint64(name+"_min"), h.Uint64(name+"_max")
		h.Assume(mn <= mx && val >= mn && val <= mx)
		r := &fpb.UintRange{Minimum: mn, Maximum: mx, DeltaMin: h.Int64(name + "_rdmin"), DeltaMax: h.Int64(name + "_rdmax")}
		h.Assume(r.DeltaMin <= r.DeltaMax && (r.DeltaMin != 0 || r.DeltaMax != 0))
		h.Known("D13-int64-edge-of-range", mx >= uint64(c20Big) || r.DeltaMin <= -c20Big || r.DeltaMax >= c20Big, c20D13Width...)
		v.Value = &fpb.Value_UintValue{UintValue: &fpb.UintValue{Value: val, Distribution: &fpb.UintValue_Range{Range: r}}}
	case 4:
		val, mn, mx := h.Float64(name+"_val"), h.Float64(name+"_min"), h.Float64(name+"_max")
		dl, dh := h.Float64(name+"_rdmin"), h.Float64(name+"_rdmax")
		const lim = 1e300
		h.Assume(mn > -lim && mx < lim && dl > -lim && dh < lim) // finite configuration (stated bound)
		h.Assume(mn <= mx && val >= mn && val <= mx && dl <= dh && (dl != 0 || dh != 0))
		v.Value = &fpb.Value_DoubleValue{DoubleValue: &fpb.DoubleValue{Value: val, Distribution: &fpb.DoubleValue_Range{Range: &fpb.DoubleRange{Minimum: mn, Maximum: mx, DeltaMin: dl, DeltaMax: dh}}}}
	case 5:
		n := h.Range(name+"_nopt", 1, 3)
		l := &fpb.StringList{Random: random}
		for i := 0; i < n; i++ {
			l.Options = append(l.Options, h.Atom(name+"_opt"))
		}
		v.Value = &fpb.Value_StringValue{StringValue: &fpb.StringValue{Value: h.Atom(name + "_val"), Distribution: &fpb.StringValue_List{List: l}}}
	case 6:
		n := h.Range(name+"_nopt", 1, 2)
		l := &fpb.BoolList{Random: random}
		for i := 0; i < n; i++ {
			l.Options = append(l.Options, h.Bool(name+"_opt"))
		}
		v.Value = &fpb.Value_BoolValue{BoolValue: &fpb.BoolValue{Value: h.Bool(name + "_val"), Distribution: &fpb.BoolValue_List{List: l}}}
	case 7:
		n := h.Range(name+"_nopt", 1, h.Param("NOPT", 3))
		l := &fpb.StringList{Random: random}
		for i := 0; i < n; i++ {
			l.Options = append(l.Options, h.Atom(name+"_opt"))
		}
		v.Value = &fpb.Value_StringListValue{StringListValue: &fpb.StringListValue{Value: []string{h.Atom(name + "_val")}, Distribution: &fpb.StringListValue_List{List: l}}}
	case 8:
		v.Value = &fpb.Value_IntValue{IntValue: &fpb.IntValue{Value: h.Int64(name + "_val")}}
	default:
		v.Value = &fpb.Value_Delete{Delete: &fpb.DeleteValue{}}
	}
	return v
}

func c20IntIn(x int64, opts []int64) bool {
	in := false
	for _, o := range opts {
		in = zz.Or(in, x == o)
	}
	return in
}

func c20StrIn(x string, opts []string) bool {
	in := false
	for _, o := range opts {
		in = zz.Or(in, x == o)
	}
	return in
}

// c20Check: an emitted value of configuration cfg (first emission = the configured value itself).
func c20Check(h *zz.H, cfg, got *fpb.Value, first bool) {
	if first {
		return
	}
	switch c := cfg.Value.(type) {
	case *fpb.Value_IntValue:
		x := got.GetIntValue().Value
		switch d := c.IntValue.Distribution.(type) {
		case *fpb.IntValue_Range:
			h.Assert(x >= d.Range.Minimum && x <= d.Range.Maximum, "C20: generated integer stays within [minimum, maximum]")
		case *fpb.IntValue_List:
			h.Assert(c20IntIn(x, d.List.Options), "C20: generated integer is a member of the option list")
		default:
			h.Assert(x == c.IntValue.Value, "C20: a constant stays constant")
		}
	case *fpb.Value_UintValue:
		x := got.GetUintValue().Value
		r := c.UintValue.GetRange()
		h.Assert(x >= r.Minimum && x <= r.Maximum, "C20: generated unsigned integer stays within [minimum, maximum]")
	case *fpb.Value_DoubleValue:
		x := got.GetDoubleValue().Value
		r := c.DoubleValue.GetRange()
		h.Assert(x >= r.Minimum && x <= r.Maximum, "C20: generated double stays within [minimum, maximum]")
	case *fpb.Value_StringValue:
		h.Assert(c20StrIn(got.GetStringValue().Value, c.StringValue.GetList().Options), "C20: generated string is a member of the option list")
	case *fpb.Value_BoolValue:
		x := got.GetBoolValue().Value
		in := false
		for _, o := range c.BoolValue.GetList().Options {
			in = zz.Or(in, x == o)
		}
		h.Assert(in, "C20: generated bool is a member of the option list")
	case *fpb.Value_StringListValue:
		ok := true
		for _, s := range got.GetStringListValue().Value {
			ok = zz.And(ok, c20StrIn(s, c.StringListValue.GetList().Options))
		}
		h.Assert(ok, "C20: every generated list element is a member of the option list")
	}
}

// VerifC20_Stream: V configured values (kinds by parameter), the injected sync marker, N calls of Next.
func VerifC20_Stream(h *zz.H) {
	V, N := h.Param("V", 1), h.Param("N", 3)
	kmin, kmax := h.Param("KMIN", 0), h.Param("KMAX", 9)
	seed := h.Int64("seed")
	h.Assume(seed != 0)
	var cfgs []*fpb.Value
	var clones []*fpb.Value
	for i := 0; i < V; i++ {
		name := []string{"a", "b", "c"}[i]
		c := c20Value(h, name, h.Range(name+"_kind", kmin, kmax))
		cfgs = append(cfgs, c)
		clones = append(clones, proto.Clone(c).(*fpb.Value))
	}
	delay := h.Param("DELAY", 2)
	if delay == 2 {
		delay = h.Range("delay", 0, 1)
	}
	// natively (replay) the delay would be a real time.Sleep of the symbolic duration: engine only
	q := New(delay == 1 && h.Symbolic(), seed, clones)
	// what (*fake/gnmi.Client).reset does: inject the sync marker after the latest configured update
	q.Add(&fpb.Value{Timestamp: &fpb.Timestamp{Timestamp: q.Latest()}, Repeat: 1, Value: &fpb.Value_Sync{Sync: 1}})
	count := make([]int, V)
	lastTS := make([]int64, V)
	var prev int64
	havePrev, synced := false, false
	for k := 0; k < N; k++ {
		r, err := q.Next()
		h.Assert(err == nil, "C20: a valid configuration never makes the generator fail")
		if err != nil {
			return
		}
		if r == nil {
			h.Cover("queue exhausted")
			break
		}
		v := r.(*fpb.Value)
		h.Assert(q.duration >= 0, "C20: the real-time delay between emissions is never negative")
		ts := v.Timestamp.Timestamp
		if havePrev {
			h.Assert(ts >= prev, "C20: updates are emitted in non-decreasing timestamp order")
		}
		prev, havePrev = ts, true
		if _, ok := v.Value.(*fpb.Value_Sync); ok {
			h.Assert(!synced, "C20: the sync marker is emitted once")
			synced = true
			for i := range cfgs {
				h.Assert(count[i] >= 1, "C20: the sync marker is emitted after the first emission of every configured value")
			}
			continue
		}
		for i, c := range cfgs {
			if v.Path[0] != c.Path[0] {
				continue
			}
			count[i]++
			if c.Repeat >= 1 {
				h.Assert(count[i] <= int(c.Repeat), "C20: a value is emitted at most repeat times")
			}
			if count[i] > 1 {
				step := ts - lastTS[i]
				h.Assert(step >= c.Timestamp.DeltaMin && step <= c.Timestamp.DeltaMax, "C20: every timestamp step lies within [delta_min, delta_max]")
			} else {
				h.Assert(ts == c.Timestamp.Timestamp, "C20: the first emission carries the configured timestamp")
			}
			lastTS[i] = ts
			c20Check(h, c, v, count[i] == 1)
		}
	}
	h.Trace("emitted", count[0])
}

// VerifC20_Repeat: with a horizon long enough, every value with repeat >= 1 is emitted exactly repeat
// times and then the queue is exhausted.
func VerifC20_Repeat(h *zz.H) {
	V := h.Param("V", 2)
	var clones []*fpb.Value
	total := 0
	var reps []int
	for i := 0; i < V; i++ {
		name := []string{"a", "b", "c"}[i]
		c := c20Value(h, name, 8)
		h.Assume(c.Repeat >= 1)
		h.Assume(c.Timestamp.Timestamp < c20Big && c.Timestamp.DeltaMax < c20Big)
		total += int(c.Repeat)
		reps = append(reps, int(c.Repeat))
		clones = append(clones, c)
	}
	q := New(false, 7, clones)
	count := make([]int, V)
	for k := 0; k < total; k++ {
		r, err := q.Next()
		h.Assert(err == nil && r != nil, "C20: the generator keeps emitting until every repeat count is used up")
		if err != nil || r == nil {
			return
		}
		v := r.(*fpb.Value)
		for i := 0; i < V; i++ {
			if v.Path[0] == []string{"a", "b", "c"}[i] {
				count[i]++
			}
		}
	}
	for i := range count {
		h.Assert(count[i] == reps[i], "C20: each configured value is emitted exactly as many times as its repeat count")
	}
	r, err := q.Next()
	h.Assert(r == nil && err == nil, "C20: after all repeats the queue is exhausted")
}

// VerifC20_Determinism: two generators built from the same configuration and the same non-zero
// seed emit identical sequences.
func VerifC20_Determinism(h *zz.H) {
	V, N := h.Param("V", 1), h.Param("N", 3)
	kmin, kmax := h.Param("KMIN", 0), h.Param("KMAX", 9)
	seed := h.Int64("seed")
	h.Assume(seed != 0)
	var c1, c2 []*fpb.Value
	for i := 0; i < V; i++ {
		name := []string{"a", "b", "c"}[i]
		c := c20Value(h, name, h.Range(name+"_kind", kmin, kmax))
		h.Assume(c.Timestamp.Timestamp < c20Big && c.Timestamp.DeltaMax < c20Big)
		c1 = append(c1, proto.Clone(c).(*fpb.Value))
		c2 = append(c2, proto.Clone(c).(*fpb.Value))
	}
	q1, q2 := New(false, seed, c1), New(false, seed, c2)
	for k := 0; k < N; k++ {
		r1, e1 := q1.Next()
		r2, e2 := q2.Next()
		h.Assert((e1 == nil) == (e2 == nil), "C20: same configuration and seed fail alike")
		if e1 != nil || e2 != nil {
			return
		}
		h.Assert((r1 == nil) == (r2 == nil), "C20: same configuration and seed end alike")
		if r1 == nil || r2 == nil {
			return
		}
		h.Assert(proto.Equal(r1.(*fpb.Value), r2.(*fpb.Value)), "C20: same configuration and same non-zero seed emit identical sequences")
	}
}

// VerifC20_Reuse: a second generator built later from the SAME configuration objects and seed
// (what a second Subscribe or a Poll does in the fake agent) emits the same sequence as the first:
// building and running a generator must not change the configuration it was built from.
func VerifC20_Reuse(h *zz.H) {
	V, N := h.Param("V", 1), h.Param("N", 3)
	kmin, kmax := h.Param("KMIN", 0), h.Param("KMAX", 9)
	seed := h.Int64("seed")
	h.Assume(seed != 0)
	var cfg []*fpb.Value
	var reps []int32
	for i := 0; i < V; i++ {
		name := []string{"a", "b", "c"}[i]
		c := c20Value(h, name, h.Range(name+"_kind", kmin, kmax))
		h.Assume(c.Timestamp.Timestamp < c20Big && c.Timestamp.DeltaMax < c20Big)
		cfg = append(cfg, c)
		reps = append(reps, c.Repeat)
	}
	run := func() []*fpb.Value {
		q := New(false, seed, cfg)
		var out []*fpb.Value
		for k := 0; k < N; k++ {
			r, err := q.Next()
			if err != nil || r == nil {
				break
			}
			out = append(out, proto.Clone(r.(*fpb.Value)).(*fpb.Value))
		}
		return out
	}
	first := run()
	for i, c := range cfg {
		h.Assert(c.Repeat == reps[i], "C20: running a generator leaves the configuration's repeat counts unchanged")
	}
	second := run()
	h.Assert(len(first) == len(second), "C20: a generator rebuilt from the same configuration and seed emits as many updates")
	if len(first) == len(second) {
		for k := range first {
			h.Assert(proto.Equal(first[k], second[k]), "C20: a generator rebuilt from the same configuration and seed emits the identical sequence")
		}
	}
}
