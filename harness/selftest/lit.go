package coalesce

import (
	"bytes"
	"context"
	"errors"
	"slices"
	"sort"
	"strconv"
	"strings"
	"sync"
	"sync/atomic"
	"time"

	zz "github.com/openconfig/gnmi/zzverif"
)

type litErr struct{ code int }

func (e *litErr) Error() string { return "lit" }

func VerifLit(h *zz.H) {
	switch h.Param("CASE", 0) {
	case 0:
		var m sync.Map
		m.Store("a", 1)
		v, ok := m.Load("a")
		h.Assert(ok && v.(int) == 1, "sync.Map load")
		m.Delete("a")
		_, ok = m.Load("a")
		h.Assert(!ok, "sync.Map delete")
		m.LoadOrStore("b", 2)
		n := 0
		m.Range(func(k, v interface{}) bool { n++; return true })
		h.Assert(n == 1, "sync.Map range")
	case 1:
		var v atomic.Value
		v.Store(5)
		h.Assert(v.Load().(int) == 5, "atomic.Value")
	case 2:
		var x atomic.Int64
		x.Add(3)
		x.Store(x.Load() + 1)
		h.Assert(x.Load() == 4, "atomic.Int64")
		var b atomic.Bool
		b.Store(true)
		h.Assert(b.Load() && b.CompareAndSwap(true, false) && !b.Load(), "atomic.Bool")
		var u atomic.Uint32
		u.Add(1)
		h.Assert(u.Load() == 1, "atomic.Uint32")
	case 3:
		var p atomic.Pointer[litErr]
		h.Assert(p.Load() == nil, "ptr nil")
		e := &litErr{1}
		p.Store(e)
		h.Assert(p.Load() == e && p.CompareAndSwap(e, nil) && p.Load() == nil, "atomic.Pointer")
	case 4:
		pool := sync.Pool{New: func() interface{} { return new(int) }}
		x := pool.Get().(*int)
		*x = 1
		pool.Put(x)
		h.Assert(*x == 1, "pool")
	case 5:
		var sb strings.Builder
		sb.WriteString("ab")
		sb.WriteByte('c')
		h.Assert(sb.String() == "abc" && sb.Len() == 3, "builder")
	case 6:
		h.Assert(strings.EqualFold("Ab", "aB") && strings.TrimPrefix("abc", "a") == "bc" && strings.TrimSuffix("abc", "c") == "ab", "strings misc")
		h.Assert(len(strings.Fields(" a b ")) == 2 && strings.Count("aa", "a") == 2 && strings.Repeat("a", 2) == "aa", "strings misc2")
		h.Assert(strings.LastIndex("aba", "a") == 2 && strings.IndexByte("ab", 'b') == 1 && strings.ContainsRune("ab", 'b') && strings.ContainsAny("ab", "xb"), "strings misc3")
	case 7:
		n, err := strconv.Atoi("12")
		h.Assert(err == nil && n == 12 && strconv.Itoa(7) == "7" && strconv.FormatInt(5, 10) == "5" && strconv.Quote("a") == "\"a\"", "strconv")
		u, err := strconv.ParseUint("9", 10, 64)
		h.Assert(err == nil && u == 9, "parseuint")
		bv, err := strconv.ParseBool("true")
		h.Assert(bv && err == nil, "parsebool")
	case 8:
		s := []string{"b", "a"}
		h.Assert(slices.Contains(s, "a") && slices.Index(s, "a") == 1, "slices")
		slices.Sort(s)
		h.Assert(s[0] == "a", "slices.Sort")
		sort.Slice(s, func(i, j int) bool { return s[i] > s[j] })
		h.Assert(s[0] == "b", "sort.Slice")
		s2 := slices.Clone(s)
		h.Assert(slices.Equal(s, s2), "clone/equal")
		s2 = slices.Insert(s2, 0, "z")
		s2 = slices.Delete(s2, 0, 1)
		h.Assert(len(s2) == 2, "insert/delete")
	case 9:
		e := &litErr{2}
		w := errors.Join(e)
		_ = w
		var t *litErr
		wrapped := &wrapErr{e}
		h.Assert(errors.Is(wrapped, e) && errors.As(wrapped, &t) && t.code == 2 && errors.Unwrap(wrapped) == error(e), "errors")
	case 10:
		done := make(chan bool, 1)
		time.AfterFunc(time.Second, func() { done <- true })
		ctx, cancel := context.WithTimeout(context.Background(), time.Second)
		defer cancel()
		select {
		case <-done:
		case <-ctx.Done():
		case <-time.After(time.Second):
		}
	case 11:
		var mu sync.Mutex
		c := sync.NewCond(&mu)
		ready := false
		go func() { mu.Lock(); ready = true; c.Broadcast(); mu.Unlock() }()
		mu.Lock()
		for !ready {
			c.Wait()
		}
		mu.Unlock()
	case 12:
		h.Assert(bytes.Equal([]byte("a"), []byte("a")) && bytes.Contains([]byte("ab"), []byte("b")) && bytes.HasPrefix([]byte("ab"), []byte("a")), "bytes")
		var bb bytes.Buffer
		bb.WriteString("x")
		bb.WriteByte('y')
		h.Assert(bb.String() == "xy" && bb.Len() == 2, "buffer")
	case 13:
		m := map[string]int{"a": 1, "b": 2}
		clear(m)
		h.Assert(len(m) == 0 && min(1, 2) == 1 && max(1, 2) == 2, "builtins")
		a := []int{1, 2, 3}
		copy(a, a[1:])
		h.Assert(a[0] == 2, "copy")
	case 14:
		ctx, cancel := context.WithDeadline(context.Background(), time.Now().Add(time.Second))
		cancel()
		h.Assert(ctx.Err() != nil, "deadline ctx cancelled")
		ctx2 := context.WithValue(context.Background(), "k", 1)
		h.Assert(ctx2.Value("k").(int) == 1, "ctx value")
		c3, cf := context.WithCancelCause(context.Background())
		cf(errors.New("x"))
		h.Assert(context.Cause(c3) != nil, "cause")
	case 15:
		var wg sync.WaitGroup
		n := 0
		var mu sync.RWMutex
		for i := 0; i < 2; i++ {
			wg.Add(1)
			go func() { defer wg.Done(); mu.Lock(); n++; mu.Unlock() }()
		}
		wg.Wait()
		ok := mu.TryLock()
		h.Assert(n == 2 && ok, "wg/trylock")
	case 16:
		t := time.NewTicker(time.Second)
		select {
		case <-t.C:
		default:
		}
		t.Stop()
		d := time.Duration(5) * time.Millisecond
		h.Assert(d.Milliseconds() == 5 && d.Seconds() < 1 && time.Unix(1, 0).Before(time.Unix(2, 0)), "time misc")
		h.Assert(time.Unix(5, 0).Unix() == 5 && time.Unix(0, 7).UnixNano() == 7 && time.UnixMilli(3).UnixMilli() == 3, "unix")
	case 17:
		type pair struct{ a, b int }
		m := map[pair][]string{}
		m[pair{1, 2}] = append(m[pair{1, 2}], "x")
		h.Assert(len(m[pair{1, 2}]) == 1, "struct key map")
		arr := [3]int{1, 2, 3}
		s := arr[:]
		p := (*[2]int)(s[:2])
		h.Assert(p[1] == 2, "slice to array ptr")
	case 18:
		ch := make(chan int, 2)
		ch <- 1
		ch <- 2
		close(ch)
		n := 0
		for v := range ch {
			n += v
		}
		h.Assert(n == 3 && len(ch) == 0 && cap(ch) == 2, "chan range")
		for i := range 3 {
			n += i
		}
		h.Assert(n == 6, "range int")
	case 19:
		s := "héllo"
		n := 0
		for range s {
			n++
		}
		r := []rune(s)
		h.Assert(n == 5 && len(r) == 5 && string(r[1]) == "é" && strings.ToUpper("a") == "A", "runes")
	case 20:
		once := sync.OnceFunc(func() {})
		once()
		v := sync.OnceValue(func() int { return 3 })
		h.Assert(v() == 3, "oncevalue")
	default:
	}
}

type wrapErr struct{ e error }

func (w *wrapErr) Error() string { return "w" }
func (w *wrapErr) Unwrap() error { return w.e }
