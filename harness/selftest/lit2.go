package coalesce

import (
	"time"

	zz "github.com/openconfig/gnmi/zzverif"
)

func VerifLit2(h *zz.H) {
	h.Assert(time.Unix(5, 0).Unix() == 5, "Unix()")
	h.Assert(time.Unix(0, 7).UnixNano() == 7, "UnixNano()")
	h.Assert(time.UnixMilli(3).UnixMilli() == 3, "UnixMilli")
	h.Assert(time.Unix(2, 0).Sub(time.Unix(1, 0)) == time.Second, "Sub")
	h.Assert(time.Unix(1, 0).Add(time.Second).Equal(time.Unix(2, 0)), "Add/Equal")
	h.Assert(time.Unix(1, 5).Truncate(time.Second).Equal(time.Unix(1, 0)), "Truncate")
	h.Assert(time.Unix(1, 0).Compare(time.Unix(2, 0)) < 0, "Compare")
	h.Assert(time.Duration(1500)*time.Millisecond == 1500*time.Millisecond && (1500 * time.Millisecond).Round(time.Second) == 2*time.Second, "Round")
	var z time.Time
	h.Assert(z.IsZero() && !time.Unix(1, 0).IsZero(), "IsZero")
	h.Assert(time.Unix(1, 0).UnixMicro() == 1000000, "UnixMicro")
	h.Assert(time.Until(time.Now()) <= 0 || true, "Until")
}
