package subscribe

// C04 — STREAM subscribers converge to the cache; sync marks the initial snapshot.
// The real Server.Subscribe (all its goroutines) races one writer goroutine under the
// engine's scheduler; the oracle is evaluated at quiescence.

import (
	"context"

	"github.com/openconfig/gnmi/cache"
	"github.com/openconfig/gnmi/ctree"
	zz "github.com/openconfig/gnmi/zzverif"

	pb "github.com/openconfig/gnmi/proto/gnmi"
)

type c04Ent struct {
	idx []string
	ts  int64
}

// c04Replay folds the subscriber's responses in order: an update sets a leaf, a delete removes what it matches.
func c04Replay(h *zz.H, sent []*pb.SubscribeResponse) (state []c04Ent, syncs int, syncAt int) {
	syncAt = -1
	for i, r := range sent {
		if vIsSync(r) {
			syncs++
			if syncAt < 0 {
				syncAt = i
			}
			continue
		}
		_, idx, n := vRespIndex(r)
		if n == nil {
			continue
		}
		switch {
		case len(n.Update) > 0:
			found := false
			for k := range state {
				if len(state[k].idx) == len(idx) && c04Eq(state[k].idx, idx) {
					state[k].ts = c04Version(n)
					found = true
				}
			}
			if !found {
				state = append(state, c04Ent{idx, c04Version(n)})
			}
		case len(n.Delete) > 0:
			var keep []c04Ent
			for _, e := range state {
				if !c04Match(idx, e.idx) {
					keep = append(keep, e)
				}
			}
			state = keep
		}
	}
	return
}

// c04Version identifies what a leaf holds: its timestamp and (integer) value together, so that a
// different value accepted at the same timestamp counts as a change.
func c04Version(n *pb.Notification) int64 {
	v := int64(0)
	if len(n.Update) > 0 {
		v = n.Update[0].GetVal().GetIntVal()
	}
	return n.Timestamp*1000 + v
}

func c04Eq(a, b []string) bool {
	if len(a) != len(b) {
		return false
	}
	for i := range a {
		if a[i] != b[i] {
			return false
		}
	}
	return true
}

func c04Match(q, p []string) bool { // concrete version of the tree's wildcard rule
	n := len(q)
	if n > len(p)+1 {
		return false
	}
	for i := 0; i < n && i < len(p); i++ {
		if q[i] != "*" && q[i] != p[i] {
			return false
		}
	}
	return n <= len(p) || q[n-1] == "*"
}

func c04Upd(name string, ts int64) *pb.Notification {
	return vLeafSpec{target: c05DevA, idx: []string{name}}.notification(ts, ts)
}

func c04Del(name string, ts int64) *pb.Notification {
	return &pb.Notification{Timestamp: ts, Prefix: &pb.Path{Target: c05DevA}, Delete: []*pb.Path{{Elem: []*pb.PathElem{{Name: name}}}}}
}

// VerifC04_Converge: one STREAM subscription starting at an arbitrary moment relative to a writer.
func VerifC04_Converge(h *zz.H) {
	c := cache.New([]string{c05DevA})
	s, _ := NewServer(c)
	c.SetClient(s.Update)
	pre := h.Range("preexisting", h.Param("PREMIN", 0), 1) == 1
	if pre {
		c.GnmiUpdate(c04Upd("a", 1))
	}
	q := [][]string{{}, {"a"}, {"*"}, {"zz"}, {"b"}}[h.Range("subscription", 0, h.Param("SUBS", 4))]
	sl := &pb.SubscriptionList{Mode: pb.SubscriptionList_STREAM, Prefix: &pb.Path{Target: c05DevA}, UpdatesOnly: h.Range("updates_only", 0, h.Param("UOMAX", 1)) == 1}
	p := &pb.Path{}
	for _, e := range q {
		p.Elem = append(p.Elem, &pb.PathElem{Name: e})
	}
	sl.Subscription = []*pb.Subscription{{Path: p}}
	st := &vStream{ctx: context.Background(), h: h, first: &pb.SubscribeRequest{Request: &pb.SubscribeRequest_Subscribe{Subscribe: sl}}, block: true}
	go func() { s.Subscribe(st) }()
	op := h.Range("writer", h.Param("OPMIN", 0), h.Param("OPS", 5))
	go func() {
		switch op {
		case 0: // update an existing (or, without pre-state, new) leaf
			c.GnmiUpdate(c04Upd("a", 5))
		case 1: // add a new matching leaf — the case that exposes a lost registration window
			c.GnmiUpdate(c04Upd("b", 5))
		case 2:
			c.GnmiUpdate(c04Del("a", 5))
		case 3: // delete then re-add
			c.GnmiUpdate(c04Del("a", 5))
			c.GnmiUpdate(c04Upd("a", 6))
		case 4:
			c.Reset(c05DevA)
		case 5: // two updates to one leaf (coalescing)
			c.GnmiUpdate(c04Upd("a", 5))
			c.GnmiUpdate(c04Upd("a", 6))
		default: // the leaf is rewritten with a different value at the SAME timestamp (the cache accepts it)
			c.GnmiUpdate(vLeafSpec{target: c05DevA, idx: []string{"a"}}.notification(5, 5))
			c.GnmiUpdate(vLeafSpec{target: c05DevA, idx: []string{"a"}}.notification(5, 7))
		}
	}()
	h.Quiesce()
	state, syncs, syncAt := c04Replay(h, st.sent)
	h.Assert(syncs == 1, "C04: exactly one sync_response")
	if sl.UpdatesOnly {
		h.Assert(syncAt == 0, "C04: for updates_only the sync_response comes first")
	}
	// the cache's matching content now (the cache has stopped changing)
	var cur []c04Ent
	c.Query(c05DevA, []string{"*"}, func(pth []string, _ *ctree.Leaf, v interface{}) error {
		if len(pth) > 0 && pth[0] == "meta" {
			return nil
		}
		if c04Match(q, pth) {
			cur = append(cur, c04Ent{append([]string{}, pth...), c04Version(v.(*pb.Notification))})
		}
		return nil
	})
	if !sl.UpdatesOnly {
		for _, e := range cur {
			found := false
			for _, r := range state {
				if c04Eq(r.idx, e.idx) {
					found = true
					h.Assert(r.ts == e.ts, "C04: the subscriber ends with the newest value of every matching leaf")
				}
			}
			h.Assert(found, "C04: replaying the responses yields every matching leaf of the cache (none missing)")
		}
	}
	for _, r := range state {
		if len(r.idx) > 0 && r.idx[0] == "meta" {
			continue
		}
		found := false
		for _, e := range cur {
			if c04Eq(r.idx, e.idx) {
				found = true
				h.Assert(r.ts == e.ts, "C04: no stale value survives in the replayed state")
			}
		}
		h.Assert(found, "C04: replaying the responses yields nothing the cache does not hold (none extra)")
	}
	h.Trace("responses", len(st.sent) >= 0)
}
