package subscribe

// C05 — ONCE and POLL return exactly the matching snapshot, then sync.

import (
	"context"

	"github.com/openconfig/gnmi/cache"
	"github.com/openconfig/gnmi/path"
	zz "github.com/openconfig/gnmi/zzverif"

	pb "github.com/openconfig/gnmi/proto/gnmi"
)

const (
	c05DevA = "devA"
	c05DevB = "devB"
)

// c05Populate stores N leaves with symbolic index paths in one or two targets.
func c05Populate(h *zz.H, c *cache.Cache, N int, twoTargets bool) []vLeafSpec {
	var leaves []vLeafSpec
	n := h.Range("leaves", 0, N)
	for i := 0; i < n; i++ {
		l := vLeafSpec{target: c05DevA}
		if twoTargets && h.Range("leaf_target", 0, 1) == 1 {
			l.target = c05DevB
		}
		k := h.Range("leaf_len", 1, h.Param("L", 2))
		if h.Param("KEYED", 0) == 1 && h.Range("leaf_keyed", 0, 1) == 1 {
			// a list entry: name{k1: v1, k2: v2} (+ k-1 plain elements); index = name, v1, v2, ...
			l.keyed = true
			k += 2
		}
		for j := 0; j < k; j++ {
			l.idx = append(l.idx, vName(h, "leaf"))
		}
		for _, e := range l.idx {
			h.Assume(e != "*" && e != "meta") // stored data: no wildcard names, not the metadata subtree
		}
		if h.Param("ORIGIN", 0) == 1 && len(l.idx) >= 2 && h.Range("leaf_origin", 0, 1) == 1 {
			l.origin = true
			h.Assume(l.idx[0] != "")
		}
		l.noti = l.notification(int64(i+1), int64(i+1))
		if c.GnmiUpdate(l.noti) != nil {
			h.Assume(false) // paths crossing each other: not a cache content
		}
		// distinct leaves
		for _, o := range leaves {
			if o.target == l.target {
				h.Assume(!vSamePath(o.idx, l.idx))
			}
		}
		leaves = append(leaves, l)
	}
	return leaves
}

// c05Request builds the symbolic subscription: target (a known one or "*"), 1..S paths of 0..L+1
// elements with globs anywhere, optional origin in prefix or path.
func c05Request(h *zz.H, mode pb.SubscriptionList_Mode, twoTargets bool) (*pb.SubscribeRequest, string) {
	target := c05DevA
	hi := 1
	if twoTargets {
		hi = 2
	}
	switch h.Range("sub_target", 0, hi) {
	case 1:
		target = "*"
	case 2:
		target = c05DevB
	}
	sl := &pb.SubscriptionList{Mode: mode, Prefix: &pb.Path{Target: target}}
	if h.Param("ORIGIN", 0) == 1 && h.Range("prefix_origin", 0, 1) == 1 {
		sl.Prefix.Origin = h.Atom("prefix_origin")
		h.Assume(sl.Prefix.Origin != "")
	}
	ns := h.Range("nsubs", 1, h.Param("S", 1))
	for i := 0; i < ns; i++ {
		p := &pb.Path{}
		if h.Param("ORIGIN", 0) == 1 && sl.Prefix.Origin == "" && h.Range("path_origin", 0, 1) == 1 {
			p.Origin = h.Atom("path_origin")
			h.Assume(p.Origin != "")
		}
		k := h.Range("sub_len", 0, h.Param("L", 2)+1)
		for j := 0; j < k; j++ {
			e := &pb.PathElem{Name: vName(h, "sub")}
			if j == 0 && h.Param("KEYED", 0) == 1 && h.Range("sub_keyed", 0, 1) == 1 {
				// keyed list element; each key value may be the wildcard
				e.Key = map[string]string{"k1": vName(h, "sub_k1"), "k2": vName(h, "sub_k2")}
			}
			p.Elem = append(p.Elem, e)
		}
		sl.Subscription = append(sl.Subscription, &pb.Subscription{Path: p})
	}
	return &pb.SubscribeRequest{Request: &pb.SubscribeRequest_Subscribe{Subscribe: sl}}, target
}

// c05SpecIndex: the index form of a subscription path as the specification gives it (written out
// here, not computed with the code under test): origin (from the prefix, else from the path),
// prefix elements, path elements; a keyed element contributes its name followed by its key
// values in the order of the key names (k1 before k2).
func c05SpecIndex(pre, p *pb.Path) []string {
	var r []string
	if pre.GetOrigin() != "" {
		r = append(r, pre.GetOrigin())
	} else if p.GetOrigin() != "" {
		r = append(r, p.GetOrigin())
	}
	for _, pp := range []*pb.Path{pre, p} {
		for _, e := range pp.GetElem() {
			r = append(r, e.Name)
			if len(e.Key) > 0 {
				r = append(r, e.Key["k1"], e.Key["k2"])
			}
		}
	}
	return r
}

// c05Want: leaf l is in the matching snapshot of request sl.
func c05Want(h *zz.H, sl *pb.SubscriptionList, target string, l vLeafSpec) bool {
	if target != "*" && target != l.target {
		return false
	}
	want := false
	for _, s := range sl.Subscription {
		if _, err := path.CompletePath(sl.Prefix, s.Path); err != nil {
			continue
		}
		want = zz.Or(want, vTreeMatch(c05SpecIndex(sl.Prefix, s.Path), l.idx))
	}
	return want
}

// c05CheckRound: responses[from:] up to and including the next sync carry exactly the matching leaves.
func c05CheckRound(h *zz.H, sent []*pb.SubscribeResponse, from int, sl *pb.SubscriptionList, target string, leaves []vLeafSpec) int {
	end := -1
	for i := from; i < len(sent); i++ {
		if vIsSync(sent[i]) {
			end = i
			break
		}
	}
	h.Assert(end >= 0, "C05: every request / poll trigger is answered with a sync_response")
	if end < 0 {
		return len(sent)
	}
	for _, l := range leaves {
		got := false
		for i := from; i < end; i++ {
			got = zz.Or(got, vCarries(sent[i], l))
		}
		want := c05Want(h, sl, target, l)
		h.Assert(got == want, "C05: exactly the leaves matching one of the paths are returned before the sync_response")
	}
	for i := from; i < end; i++ {
		known := false
		for _, l := range leaves {
			known = zz.Or(known, vCarries(sent[i], l))
		}
		h.Assert(known, "C05: nothing that never matched is returned (every response carries a stored leaf with its current value)")
	}
	return end + 1
}

// VerifC05_Once: ONCE against an unchanging cache.
func VerifC05_Once(h *zz.H) {
	two := h.Param("TARGETS", 1) == 2
	targets := []string{c05DevA}
	if two {
		targets = append(targets, c05DevB)
	}
	c := cache.New(targets)
	leaves := c05Populate(h, c, h.Param("N", 2), two)
	s, _ := NewServer(c)
	c.SetClient(s.Update)
	req, target := c05Request(h, pb.SubscriptionList_ONCE, two)
	st := &vStream{ctx: context.Background(), h: h, first: req}
	err := s.Subscribe(st)
	// origin conflicts are the only documented request error here
	bad := false
	for _, sub := range req.GetSubscribe().Subscription {
		if _, e := path.CompletePath(req.GetSubscribe().Prefix, sub.Path); e != nil {
			bad = true
		}
	}
	if bad {
		h.Assert(err != nil, "C05: a request with conflicting origins is rejected")
		return
	}
	h.Assert(err == nil, "C05: a ONCE subscription ends the stream successfully")
	next := c05CheckRound(h, st.sent, 0, req.GetSubscribe(), target, leaves)
	h.Assert(next == len(st.sent), "C05: exactly one sync_response, after the last leaf")
	h.Trace("sent", len(st.sent))
}

// VerifC05_Poll: POLL: the initial request and every poll trigger issued after the previous
// sync_response was received are answered alike.
func VerifC05_Poll(h *zz.H) {
	c := cache.New([]string{c05DevA})
	leaves := c05Populate(h, c, h.Param("N", 2), false)
	s, _ := NewServer(c)
	c.SetClient(s.Update)
	req, target := c05Request(h, pb.SubscriptionList_POLL, false)
	P := h.Range("polls", 0, h.Param("P", 2))
	polls := make(chan bool)
	synced := make(chan bool, 8)
	st := &vStream{ctx: context.Background(), h: h, first: req, polls: polls}
	st.onSend = func(r *pb.SubscribeResponse) error {
		if vIsSync(r) {
			synced <- true
		}
		return nil
	}
	done := make(chan error, 1)
	go func() { done <- s.Subscribe(st) }()
	// READD=1: between two rounds the target is removed and added again with a different leaf; the
	// next poll answers from the cache as it is then (the subscription addresses the target by
	// name, not the object that held its data when the stream started)
	readdAt := -1
	var leaves2 []vLeafSpec
	if h.Param("READD", 0) == 1 && P >= 1 {
		readdAt = h.Range("readd_before_poll", 0, P) // P = never
	}
	for i := 0; i <= P; i++ {
		<-synced // the client received the sync_response of the previous round
		if i < P {
			if i == readdAt {
				c.Remove(c05DevA)
				c.Add(c05DevA)
				nl := vLeafSpec{target: c05DevA, idx: []string{vName(h, "readd_leaf")}}
				h.Assume(nl.idx[0] != "*" && nl.idx[0] != "meta")
				nl.noti = nl.notification(100, 100)
				h.Assume(c.GnmiUpdate(nl.noti) == nil)
				leaves2 = []vLeafSpec{nl}
			}
			polls <- true
		}
	}
	close(polls) // client half-close
	err := <-done
	h.Assert(err == nil, "C05: a POLL subscription ends successfully on client EOF")
	from := 0
	for i := 0; i <= P; i++ {
		cur := leaves
		if readdAt >= 0 && readdAt < P && i > readdAt {
			cur = leaves2
		}
		from = c05CheckRound(h, st.sent, from, req.GetSubscribe(), target, cur)
	}
	h.Assert(from == len(st.sent), "C05: exactly one sync_response per trigger and nothing after the last one")
}
