package subscribe

// C06 (subscription part) — addSubscription/UpdateNotification: one delivery per
// notification, nothing after the subscription has been removed.

import (
	"context"

	"github.com/openconfig/gnmi/coalesce"
	"github.com/openconfig/gnmi/match"
	"github.com/openconfig/gnmi/path"
	zz "github.com/openconfig/gnmi/zzverif"

	pb "github.com/openconfig/gnmi/proto/gnmi"
)

// c06Deliveries drains the queue and returns how many times items were inserted (1+dup each).
func c06Deliveries(q *coalesce.Queue) int {
	n := 0
	for q.Len() > 0 {
		_, dup, err := q.Next(context.Background())
		if err != nil {
			break
		}
		n += 1 + int(dup)
	}
	return n
}

// c06Index is the index form of a subscription path under a prefix, as the property states it:
// target, origin (from prefix, else from the path), prefix elements, path elements.
func c06Index(pre, p *pb.Path) []string {
	var r []string
	if pre.GetTarget() != "" {
		r = append(r, pre.GetTarget())
	}
	if pre.GetOrigin() != "" {
		r = append(r, pre.GetOrigin())
	}
	r = append(r, vNames(pre)...)
	if pre.GetOrigin() == "" && p.GetOrigin() != "" {
		r = append(r, p.GetOrigin())
	}
	return append(r, vNames(p)...)
}

// VerifC06_Subscription: a subscriber with 1..S paths receives each notification at most once, iff
// one of its paths agrees with one of the notification's update/delete paths; after the
// subscription is removed it receives nothing, and a second subscriber on the same paths still does.
func VerifC06_Subscription(h *zz.H) {
	m := match.New()
	S := h.Param("S", 2)
	LQ, LP := h.Param("LQ", 2), h.Param("LP", 2)
	target := h.Atom("target")
	h.Assume(target != "")
	sl := &pb.SubscriptionList{Prefix: &pb.Path{Target: target}}
	ns := h.Range("nsubs", 1, S)
	for i := 0; i < ns; i++ {
		sl.Subscription = append(sl.Subscription, &pb.Subscription{Path: vPath(h, "sub", 0, LQ, h.Param("ORIGIN", 0) == 1)})
	}
	qa, qb := coalesce.NewQueue(), coalesce.NewQueue()
	removeA := addSubscription(m, sl, &matchClient{q: qa})
	removeB := addSubscription(m, sl, &matchClient{q: qb})

	// one notification: nu updates + nd deletes with symbolic paths
	n := &pb.Notification{Prefix: &pb.Path{Target: target}, Timestamp: 1}
	if h.Param("NPRE", 1) == 1 && h.Range("noti_prefix_elems", 0, 1) == 1 {
		n.Prefix.Elem = []*pb.PathElem{{Name: h.Atom("noti_prefix")}}
	}
	// atomic notifications are matched like any other: by the paths of their updates
	n.Atomic = h.Range("atomic", 0, 1) == 1
	nu := h.Range("nupd", 0, h.Param("U", 2))
	nd := h.Range("ndel", 0, h.Param("D", 1))
	h.Assume(nu+nd >= 1)
	if n.Atomic {
		h.Assume(nu >= 1 && nd == 0)
	}
	for i := 0; i < nu; i++ {
		n.Update = append(n.Update, &pb.Update{Path: vPath(h, "upd", 0, LP, false), Val: vIntVal(1)})
	}
	for i := 0; i < nd; i++ {
		n.Delete = append(n.Delete, vPath(h, "del", 0, LP, false))
	}
	want := false
	for _, s := range sl.Subscription {
		q := c06Index(sl.Prefix, s.Path)
		for _, u := range n.Update {
			want = zz.Or(want, vAgree(q, c06Index(n.Prefix, u.Path)))
		}
		for _, d := range n.Delete {
			want = zz.Or(want, vAgree(q, c06Index(n.Prefix, d)))
		}
	}
	// D8 (known finding): a single-update/delete notification and two matching paths of one subscriber
	h.Known("D8-single-update-two-matching-paths", nu+nd == 1 && ns >= 2, "offered to a subscriber at most once")

	UpdateNotification(m, n, n, path.ToStrings(n.Prefix, true))
	ga, gb := c06Deliveries(qa), c06Deliveries(qb)
	h.Trace("deliveries", ga, gb)
	h.Assert(ga <= 1, "C06: a notification is offered to a subscriber at most once")
	h.Assert((ga >= 1) == want, "C06: offered iff one of the subscriber's paths agrees with one of the notification's paths")
	h.Assert(ga == gb, "C06: subscribers registered with the same paths are treated alike")

	removeA()
	n2 := &pb.Notification{Prefix: n.Prefix, Timestamp: 2, Update: n.Update, Delete: n.Delete, Atomic: n.Atomic}
	UpdateNotification(m, n2, n2, path.ToStrings(n2.Prefix, true))
	h.Assert(c06Deliveries(qa) == 0, "C06: nothing is offered after the subscription has been removed")
	h.Assert((c06Deliveries(qb) >= 1) == want, "C06: other subscribers registered with the same paths are unaffected by the removal")
	removeB()
	n3 := &pb.Notification{Prefix: n.Prefix, Timestamp: 3, Update: n.Update, Delete: n.Delete}
	UpdateNotification(m, n3, n3, path.ToStrings(n3.Prefix, true))
	h.Assert(c06Deliveries(qa) == 0 && c06Deliveries(qb) == 0, "C06: nothing is offered once every subscription has been removed")
}
