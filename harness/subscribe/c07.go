package subscribe

// C07 — subscribers never receive data for targets their ACL denies.

import (
	"context"
	"errors"

	"google.golang.org/grpc/codes"
	"google.golang.org/grpc/status"
	"github.com/openconfig/gnmi/cache"
	zz "github.com/openconfig/gnmi/zzverif"

	pb "github.com/openconfig/gnmi/proto/gnmi"
)

type c07ACL struct {
	h       *zz.H
	fail    bool
	allowA  bool
	allowB  bool
	created int
}

func (a *c07ACL) NewRPCACL(context.Context) (RPCACL, error) {
	a.created++
	if a.fail {
		return nil, errors.New("no credentials")
	}
	return &c07RPC{a}, nil
}

func (a *c07ACL) Check(user, target string) bool { return false }

type c07RPC struct{ a *c07ACL }

func (r *c07RPC) Check(target string) bool {
	switch target {
	case c05DevA:
		return r.a.allowA
	case c05DevB:
		return r.a.allowB
	}
	return false
}

// VerifC07_ACL: symbolic ACL table over two targets, every subscription mode, single-target and
// all-targets subscriptions, and (STREAM) a writer issuing an update and a delete for each target.
func VerifC07_ACL(h *zz.H) {
	c := cache.New([]string{c05DevA, c05DevB})
	acl := &c07ACL{h: h, fail: h.Range("acl_unavailable", 0, 1) == 1, allowA: h.Bool("allowA"), allowB: h.Bool("allowB")}
	s, _ := NewServer(c, WithACL(acl))
	c.SetClient(s.Update)
	mk := func(target, name string, ts, v int64) *pb.Notification {
		return vLeafSpec{target: target, idx: []string{name}}.notification(ts, v)
	}
	c.GnmiUpdate(mk(c05DevA, "x", 1, 1))
	c.GnmiUpdate(mk(c05DevB, "x", 1, 1))
	mode := []pb.SubscriptionList_Mode{pb.SubscriptionList_ONCE, pb.SubscriptionList_POLL, pb.SubscriptionList_STREAM}[h.Range("mode", 0, 2)]
	target := []string{c05DevA, c05DevB, "*"}[h.Range("target", 0, 2)]
	sl := &pb.SubscriptionList{Mode: mode, Prefix: &pb.Path{Target: target}, Subscription: []*pb.Subscription{{Path: &pb.Path{}}}}
	if mode == pb.SubscriptionList_STREAM {
		sl.UpdatesOnly = h.Range("updates_only", 0, 1) == 1
	}
	recvd := 0
	npolls := 0
	if mode == pb.SubscriptionList_POLL {
		npolls = h.Range("polls", 0, h.Param("POLLS", 1))
	}
	polls := make(chan bool)
	st := &vStream{ctx: context.Background(), h: h, first: &pb.SubscribeRequest{Request: &pb.SubscribeRequest_Subscribe{Subscribe: sl}}, polls: polls, block: mode == pb.SubscriptionList_STREAM}
	gotA, gotB, delA, delB := 0, 0, 0, 0
	tdelA, tdelB := 0, 0
	isTD := func(n *pb.Notification) bool {
		return len(n.Delete) == 1 && len(n.Delete[0].Elem) == 1 && n.Delete[0].Elem[0].Name == "*"
	}
	yA, yB := 0, 0
	synced := make(chan bool, 4)
	st.onSend = func(r *pb.SubscribeResponse) error {
		if vIsSync(r) {
			synced <- true
		}
		if n := r.GetUpdate(); n != nil {
			t := n.GetPrefix().GetTarget()
			h.Assert(t == c05DevA || t == c05DevB, "C07: every data response names its target")
			if t == c05DevA {
				h.Assert(acl.allowA, "C07: no response whose target the caller is not authorised for is ever sent")
				gotA++
				if isTD(n) {
					tdelA++
				} else {
					delA += len(n.Delete)
				}
				if len(n.Update) == 1 && n.Update[0].Path.Elem[0].Name == "y" {
					yA++
				}
			}
			if t == c05DevB {
				h.Assert(acl.allowB, "C07: no response whose target the caller is not authorised for is ever sent")
				gotB++
				if isTD(n) {
					tdelB++
				} else {
					delB += len(n.Delete)
				}
				if len(n.Update) == 1 && n.Update[0].Path.Elem[0].Name == "y" {
					yB++
				}
			}
		}
		return nil
	}
	_ = recvd
	done := make(chan error, 1)
	go func() { done <- s.Subscribe(st) }()
	denied := (target == c05DevA && !acl.allowA) || (target == c05DevB && !acl.allowB)
	switch {
	case acl.fail:
		err := <-done
		h.Assert(status.Code(err) == codes.Unauthenticated, "C07: if per-call authorisation cannot be established the call is rejected as unauthenticated")
		h.Assert(len(st.sent) == 0 && st.recvs == 0, "C07: an unauthenticated call is rejected before anything is read or sent")
		return
	case denied:
		err := <-done
		h.Assert(status.Code(err) == codes.PermissionDenied, "C07: a Subscribe call for a single target the caller is not authorised for is rejected with a permission error")
		h.Assert(len(st.sent) == 0, "C07: a denied single-target call is rejected before any data is sent")
		return
	}
	switch mode {
	case pb.SubscriptionList_ONCE:
		h.Assert(<-done == nil, "C07: an authorised ONCE call ends successfully")
	case pb.SubscriptionList_POLL:
		<-synced // the client received the snapshot
		for i := 0; i < npolls; i++ {
			polls <- true // a poll trigger: the snapshot is sent again, filtered like the first one
			<-synced
		}
		close(polls) // client half-close
		h.Assert(<-done == nil, "C07: an authorised POLL call ends successfully")
	default:
		// STREAM: updates and deletes for both targets after the subscription started; on an
		// all-targets subscription optionally the removal of one target (the target-delete
		// notification is subject to the ACL like everything else)
		remove := 0
		if target == "*" && (!sl.UpdatesOnly || h.Param("RMUO", 0) == 1) {
			remove = h.Range("remove_target", 0, 2)
		}
		go func() {
			c.GnmiUpdate(mk(c05DevA, "y", 2, 2))
			c.GnmiUpdate(mk(c05DevB, "y", 2, 2))
			c.GnmiUpdate(&pb.Notification{Timestamp: 3, Prefix: &pb.Path{Target: c05DevA}, Delete: []*pb.Path{{Elem: []*pb.PathElem{{Name: "x"}}}}})
			c.GnmiUpdate(&pb.Notification{Timestamp: 3, Prefix: &pb.Path{Target: c05DevB}, Delete: []*pb.Path{{Elem: []*pb.PathElem{{Name: "x"}}}}})
			if remove != 0 {
				<-synced // the removal happens after the subscriber is registered and has its snapshot
			}
			switch remove {
			case 1:
				c.Remove(c05DevA)
			case 2:
				c.Remove(c05DevB)
			}
		}()
		h.Quiesce()
		if remove == 1 && acl.allowA {
			h.Assert(tdelA == 1, "C07: the removal of an authorised target is announced on an all-targets stream")
		}
		if remove == 2 && acl.allowB {
			h.Assert(tdelB == 1, "C07: the removal of an authorised target is announced on an all-targets stream")
		}
	}
	// everything for authorised targets is still delivered
	wantA := (target == c05DevA || target == "*") && acl.allowA
	wantB := (target == c05DevB || target == "*") && acl.allowB
	if mode == pb.SubscriptionList_STREAM {
		// (which deletes are due depends on whether the leaf was still there when the subscription
		// registered: convergence under writers is C04's subject; here: the new leaf always arrives)
		if wantA && !sl.UpdatesOnly {
			h.Assert(yA >= 1 && delA <= 1, "C07: everything for authorised targets is still delivered (stream)")
		}
		if wantB && !sl.UpdatesOnly {
			h.Assert(yB >= 1 && delB <= 1, "C07: everything for authorised targets is still delivered (stream)")
		}
	} else {
		h.Assert((gotA >= 1) == wantA && (gotB >= 1) == wantB, "C07: everything for authorised targets is still delivered (snapshot)")
	}
	nsync := 0
	for _, r := range st.sent {
		if vIsSync(r) {
			nsync++
		}
	}
	h.Assert(nsync == 1+npolls, "C07: exactly one sync_response per request / poll trigger")
}
