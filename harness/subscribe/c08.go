package subscribe

// C08 — a stalled subscriber cannot stall the collector or other subscribers.
// E1 of DESIGN §5: one subscription whose sends block (never / transiently / permanently)
// against a writer; the send-timeout timer may fire as an environment event.

import (
	"context"

	"github.com/openconfig/gnmi/cache"
	zz "github.com/openconfig/gnmi/zzverif"

	pb "github.com/openconfig/gnmi/proto/gnmi"
)

// VerifC08_Stall: the subscriber's first data send blocks; the writer issues U updates over two
// leaves and a delete meanwhile.
func VerifC08_Stall(h *zz.H) {
	c := cache.New([]string{c05DevA})
	maxQ := int64(0)
	s, _ := NewServer(c, WithStats(), WithClientStatsTest(func(dup, qsize int64) {
		if qsize > maxQ {
			maxQ = qsize
		}
	}))
	c.SetClient(s.Update)
	c.GnmiUpdate(c04Upd("a", 1))
	sl := &pb.SubscriptionList{Mode: pb.SubscriptionList_STREAM, Prefix: &pb.Path{Target: c05DevA}, Subscription: []*pb.Subscription{{Path: &pb.Path{}}}}
	st := &vStream{ctx: context.Background(), h: h, first: &pb.SubscribeRequest{Request: &pb.SubscribeRequest_Subscribe{Subscribe: sl}}, block: true}
	stall := h.Range("stall", 0, 2) // 0 never, 1 transient, 2 permanent
	release := make(chan bool)
	stalled := make(chan bool, 1)
	inSend := false
	fireDuringSend := false
	nsend := 0
	// (lemma) the send timer is armed only while a response is being sent: whenever the sender goes
	// back to the queue for the next item, no timer is armed - so a subscriber that is merely slow is
	// never timed out between two sends (probe on the real coalesce.Queue.Next)
	h.OnEntry("(*coalesce.Queue).Next", func() {
		h.Assert(h.ArmedTimers() == 0, "C08: the send timer is never armed while the sender fetches the next item (armed only while sending)")
	})
	st.onSend = func(r *pb.SubscribeResponse) error {
		nsend++
		if stall != 0 && nsend == 1 {
			inSend = true
			stalled <- true
			<-release // flow control: the transport does not take the message
			inSend = false
		}
		return nil
	}
	var subErr error
	subDone := make(chan bool, 1)
	go func() { subErr = s.Subscribe(st); subDone <- true }()
	if stall != 0 {
		select {
		case <-stalled: // the subscriber is now blocked inside Send
		case <-subDone:
			// the send timer fired between its creation and the Stop() that follows it, before any
			// send was attempted: possible only if the server goroutine is descheduled for a whole
			// timeout between two statements - outside the claim (stated)
			h.Assume(h.EnvEvents() > 0)
			return
		}
	}
	U := h.Param("U", 3)
	writerDone := make(chan bool, 1)
	go func() {
		for i := 0; i < U; i++ {
			c.GnmiUpdate(c04Upd("a", int64(10+i)))
		}
		c.GnmiUpdate(c04Upd("b", 20))
		c.GnmiUpdate(c04Del("b", 21))
		writerDone <- true
	}()
	<-writerDone // (a) accepting target updates never waits on the blocked subscriber
	h.Cover("writer finished while the subscriber was blocked")
	_ = fireDuringSend
	if stall == 1 {
		release <- true
	}
	h.Quiesce()
	ended := false
	select {
	case <-subDone:
		ended = true
	default:
	}
	fired := h.EnvEvents() > 0
	if ended {
		// (d) the subscription ended: only the send timeout can have ended it
		h.Assert(subErr != nil, "C08: a STREAM subscription ends only with an error")
		h.Assert(fired, "C08: the timeout error is returned only when the timer fired while a send was in progress")
	} else if stall == 2 && fired {
		h.Quiesce() // let the watchdog deliver the error
		select {
		case <-subDone:
		default:
			h.Fail("C08: a send that stays blocked longer than the timeout terminates the subscription")
		}
	}
	_ = inSend
	// (c) backlog bound: one entry per distinct pending leaf (a, b) + one per delete + sync
	h.Assert(maxQ <= 4, "C08: the blocked subscriber's backlog holds at most one entry per distinct pending leaf plus one per delete")
	if stall == 1 && !fired {
		// (e) a subscriber that was merely slow receives the newest value of each pending leaf,
		// with a duplicate count equal to the number of updates coalesced into it
		var lastA *pb.Notification
		total := 0
		for _, r := range st.sent {
			if n := r.GetUpdate(); n != nil && len(n.Update) == 1 && n.Update[0].Path.Elem[0].Name == "a" {
				lastA = n
				total += 1 + int(n.Update[0].Duplicates)
			}
		}
		h.Assert(lastA != nil && lastA.Timestamp == int64(10+U-1), "C08: on resuming the subscriber receives the newest value of each pending leaf")
		h.Assert(total == U+1, "C08: the duplicate counts account for every update coalesced")
	}
}

// VerifC08_TwoSubscribers: while one subscriber's sends are blocked, another subscriber keeps
// receiving the target's updates (E3 of DESIGN §5: direct check, small bounds).
func VerifC08_TwoSubscribers(h *zz.H) {
	c := cache.New([]string{c05DevA})
	s, _ := NewServer(c)
	c.SetClient(s.Update)
	mkStream := func() *vStream {
		sl := &pb.SubscriptionList{Mode: pb.SubscriptionList_STREAM, Prefix: &pb.Path{Target: c05DevA}, Subscription: []*pb.Subscription{{Path: &pb.Path{}}}, UpdatesOnly: true}
		return &vStream{ctx: context.Background(), h: h, first: &pb.SubscribeRequest{Request: &pb.SubscribeRequest_Subscribe{Subscribe: sl}}, block: true}
	}
	s1, s2 := mkStream(), mkStream()
	never := make(chan bool)
	stalled := make(chan bool, 1)
	s1.onSend = func(*pb.SubscribeResponse) error {
		stalled <- true
		<-never // permanently stalled subscriber
		return nil
	}
	synced2 := make(chan bool, 1)
	s2.onSend = func(r *pb.SubscribeResponse) error {
		if vIsSync(r) {
			synced2 <- true
		}
		return nil
	}
	go func() { s.Subscribe(s1) }()
	go func() { s.Subscribe(s2) }()
	<-stalled // S1 is blocked inside its first send (the sync of updates_only)
	<-synced2 // S2 is registered and synced
	U := h.Param("U", 1)
	for i := 0; i < U; i++ {
		h.Assert(c.GnmiUpdate(c04Upd("a", int64(10+i))) == nil, "C08: the cache keeps accepting updates while a subscriber is blocked")
	}
	h.Quiesce()
	var last *pb.Notification
	for _, r := range s2.sent {
		if n := r.GetUpdate(); n != nil {
			last = n
		}
	}
	h.Assert(last != nil && last.Timestamp == int64(10+U-1), "C08: other subscribers keep receiving updates while one subscriber's sends are blocked")
	h.Assert(len(s1.sent) <= 1, "C08: the blocked subscriber received nothing further")
}

// VerifC08_StalledEnds: two subscribers with (possibly nested) paths; the first one's sends stay
// blocked for good, so its send timeout may end it (environment event) - at any moment relative
// to the writer. The other subscriber keeps receiving the target's updates before, while and
// after the stalled subscription is torn down (its queries are unregistered on the way out).
func VerifC08_StalledEnds(h *zz.H) {
	c := cache.New([]string{c05DevA})
	s, _ := NewServer(c)
	c.SetClient(s.Update)
	leaf := vLeafSpec{target: c05DevA, idx: []string{"a", "b"}}
	sub := func(depth int) *vStream {
		p := &pb.Path{}
		for _, e := range leaf.idx[:depth] {
			p.Elem = append(p.Elem, &pb.PathElem{Name: e})
		}
		sl := &pb.SubscriptionList{Mode: pb.SubscriptionList_STREAM, Prefix: &pb.Path{Target: c05DevA}, Subscription: []*pb.Subscription{{Path: p}}, UpdatesOnly: true}
		return &vStream{ctx: context.Background(), h: h, first: &pb.SubscribeRequest{Request: &pb.SubscribeRequest_Subscribe{Subscribe: sl}}, block: true}
	}
	s1, s2 := sub(h.Range("stalled_depth", 0, 2)), sub(h.Range("healthy_depth", 0, 2))
	never := make(chan bool)
	stalled := make(chan bool, 1)
	s1.onSend = func(*pb.SubscribeResponse) error {
		stalled <- true
		<-never // permanently stalled subscriber
		return nil
	}
	synced2 := make(chan bool, 1)
	s2.onSend = func(r *pb.SubscribeResponse) error {
		if vIsSync(r) {
			synced2 <- true
		}
		return nil
	}
	var err1, err2 error
	done1, done2 := false, false
	go func() { err1 = s.Subscribe(s1); done1 = true }()
	go func() { err2 = s.Subscribe(s2); done2 = true }()
	h.Await(stalled) // S1 is blocked inside its first send (the sync of updates_only)
	h.Await(synced2) // S2 is registered and synced
	if h.Range("wait_for_teardown", 0, 1) == 1 {
		h.Quiesce() // whatever the timers do happens before the writer starts
	}
	U := h.Param("U", 1)
	for i := 0; i < U; i++ {
		h.Assert(c.GnmiUpdate(leaf.notification(int64(10+i), int64(10+i))) == nil, "C08: the cache keeps accepting updates while a subscriber is blocked")
	}
	h.Quiesce()
	if done1 {
		h.Cover("the stalled subscription was ended by its send timeout")
		h.Assert(err1 != nil && h.EnvEvents() > 0, "C08: a stalled STREAM subscription ends only with the timeout error")
	}
	if done2 {
		// the healthy subscriber's own send timer fired during one of its sends (possible under the
		// any-timing timer model): its stream legitimately ended
		h.Assert(err2 != nil && h.EnvEvents() > 0, "C08: a STREAM subscription ends only with an error")
		return
	}
	if h.EnvEvents() > 0 {
		// a send timer fired and the healthy subscriber is still running: it was the stalled
		// subscriber's timer (armed for as long as its send is blocked), whatever else is pending
		h.Assert(done1, "C08: a send that stays blocked longer than the timeout terminates that subscription")
	}
	var last *pb.Notification
	for _, r := range s2.sent {
		if n := r.GetUpdate(); n != nil {
			last = n
		}
	}
	h.Assert(last != nil && last.Timestamp == int64(10+U-1), "C08: other subscribers keep receiving updates while and after a stalled subscriber is torn down")
	h.Assert(len(s1.sent) <= 1, "C08: the blocked subscriber received nothing further")
}
