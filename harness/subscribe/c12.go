package subscribe

// C12 (Subscribe handler) — no SubscribeRequest a client can send makes the handler panic.

import (
	"context"

	"github.com/openconfig/gnmi/cache"
	zz "github.com/openconfig/gnmi/zzverif"

	pb "github.com/openconfig/gnmi/proto/gnmi"
)

// VerifC12_Subscribe: an arbitrary decoded SubscribeRequest against a cache that is empty or
// holds one leaf; a data update and a target removal race a STREAM subscription.
func VerifC12_Subscribe(h *zz.H) {
	c := cache.New([]string{c05DevA})
	s, _ := NewServer(c)
	c.SetClient(s.Update)
	if h.Range("cache_leaf", 0, 1) == 1 {
		c.GnmiUpdate(c04Upd("a", 1))
	}
	req := &pb.SubscribeRequest{}
	mode := pb.SubscriptionList_Mode(h.Range("mode", 0, 3)) // 3 is not a defined mode
	switch h.Range("request", 0, 2) {
	case 0:
	case 1:
		req.Request = &pb.SubscribeRequest_Poll{Poll: &pb.Poll{}}
	default:
		sl := &pb.SubscriptionList{Mode: mode, UpdatesOnly: h.Range("updates_only", 0, 1) == 1}
		switch h.Range("prefix", 0, 2) {
		case 0:
		case 1:
			sl.Prefix = &pb.Path{Target: h.Atom("target")}
		default:
			sl.Prefix = &pb.Path{Target: []string{c05DevA, "*"}[h.Range("known_target", 0, 1)], Origin: h.Atom("origin")}
			if h.Range("prefix_elem", 0, 1) == 1 {
				sl.Prefix.Elem = []*pb.PathElem{{Name: h.Atom("prefix_elem")}}
			}
		}
		ns := h.Range("nsubs", 0, 2)
		for i := 0; i < ns; i++ {
			sub := &pb.Subscription{}
			switch h.Range("sub_path", 0, 3) {
			case 0: // nil path
			case 1:
				sub.Path = &pb.Path{}
			case 2:
				sub.Path = &pb.Path{Origin: h.Atom("sub_origin"), Elem: []*pb.PathElem{{Name: h.Atom("sub")}}}
			default:
				sub.Path = &pb.Path{Element: []string{h.Atom("sub_element")}}
			}
			sl.Subscription = append(sl.Subscription, sub)
		}
		req.Request = &pb.SubscribeRequest_Subscribe{Subscribe: sl}
	}
	polls := make(chan bool)
	st := &vStream{ctx: context.Background(), h: h, first: req, polls: polls, block: mode == pb.SubscriptionList_STREAM}
	done := make(chan bool, 1)
	go func() { s.Subscribe(st); done <- true }()
	go func() {
		c.GnmiUpdate(c04Upd("b", 5))
		if h.Range("remove_target", 0, 1) == 1 {
			c.Remove(c05DevA)
		}
	}()
	go func() { close(polls) }()
	h.Quiesce()
	h.Cover("handler quiescent or returned")
}
