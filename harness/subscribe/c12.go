package subscribe

// C12 (Subscribe handler) — no SubscribeRequest a client can send makes the handler panic.

import (
	"context"

	"github.com/openconfig/gnmi/cache"
	zz "github.com/openconfig/gnmi/zzverif"

	pb "github.com/openconfig/gnmi/proto/gnmi"
)

// VerifC12_Subscribe: an arbitrary decoded SubscribeRequest against a cache that is empty or
// holds one leaf; a data update and a target removal race a STREAM subscription.
func VerifC12_Subscribe(h *zz.H) {
	c := cache.New([]string{c05DevA})
	s, _ := NewServer(c)
	c.SetClient(s.Update)
	if h.Range("cache_leaf", 0, 1) == 1 {
		c.GnmiUpdate(c04Upd("a", 1))
	}
	req := &pb.SubscribeRequest{}
	mode := pb.SubscriptionList_Mode(h.Range("mode", 0, 3)) // 3 is not a defined mode
	switch h.Range("request", 0, 2) {
	case 0:
	case 1:
		req.Request = &pb.SubscribeRequest_Poll{Poll: &pb.Poll{}}
	default:
		sl := &pb.SubscriptionList{Mode: mode, UpdatesOnly: h.Range("updates_only", 0, 1) == 1}
		lite := h.Param("LITE", 0) == 1
		plo := 0
		if lite {
			plo = 2 // the shapes that reach the streaming code; the full shape space is the thorough tier
		}
		switch h.Range("prefix", plo, 2) {
		case 0:
		case 1:
			sl.Prefix = &pb.Path{Target: h.Atom("target")}
		default:
			sl.Prefix = &pb.Path{Target: []string{c05DevA, "*"}[h.Range("known_target", 0, 1)]}
			if !lite {
				sl.Prefix.Origin = h.Atom("origin")
			}
			if !lite && h.Range("prefix_elem", 0, 1) == 1 {
				sl.Prefix.Elem = []*pb.PathElem{{Name: h.Atom("prefix_elem")}}
			}
		}
		ns := h.Range("nsubs", 0, 2)
		for i := 0; i < ns; i++ {
			sub := &pb.Subscription{}
			slo, shi := 0, 3
			if lite {
				slo, shi = 1, 2
			}
			switch h.Range("sub_path", slo, shi) {
			case 0: // nil path
			case 1:
				sub.Path = &pb.Path{}
			case 2:
				sub.Path = &pb.Path{Origin: h.Atom("sub_origin"), Elem: []*pb.PathElem{{Name: h.Atom("sub")}}}
			default:
				sub.Path = &pb.Path{Element: []string{h.Atom("sub_element")}}
			}
			sl.Subscription = append(sl.Subscription, sub)
		}
		req.Request = &pb.SubscribeRequest_Subscribe{Subscribe: sl}
	}
	polls := make(chan bool)
	st := &vStream{ctx: context.Background(), h: h, first: req, polls: polls, block: mode == pb.SubscriptionList_STREAM}
	synced := make(chan bool, 4)
	st.onSend = func(r *pb.SubscribeResponse) error {
		if vIsSync(r) {
			select {
			case synced <- true:
			default:
			}
		}
		return nil
	}
	done := make(chan bool, 1)
	go func() { s.Subscribe(st); done <- true }()
	isSub := req.GetSubscribe() != nil
	switch {
	case isSub && mode == pb.SubscriptionList_STREAM:
		// target data and lifecycle events reach the handler while it streams
		select {
		case <-synced: // registered and initial snapshot sent
		case <-done: // the request was refused
		}
		c.GnmiUpdate(c04Upd("b", 5))
		c.GnmiUpdate(c04Del("b", 6))
		lcs := []int{0, 1, 2}
		if h.Param("LITE", 0) == 1 {
			lcs = []int{0, 2}
		}
		switch lcs[h.Range("lifecycle", 0, len(lcs)-1)] {
		case 1:
			c.Reset(c05DevA)
		case 2:
			c.Remove(c05DevA)
		}
	case isSub && mode == pb.SubscriptionList_POLL:
		go func() {
			select {
			case <-synced:
				close(polls)
			case <-done:
			}
		}()
	}
	h.Quiesce()
	h.Cover("handler quiescent or returned")
}

// VerifC12_MakeResponse: MakeSubscribeResponse on an arbitrary stored item and duplicate count.
func VerifC12_MakeResponse(h *zz.H) {
	c := cache.New([]string{c05DevA})
	var opts []Option
	if h.Range("no_dup_report", 0, 1) == 1 {
		opts = append(opts, WithoutDupReport())
	}
	s, _ := NewServer(c, opts...)
	var item interface{}
	n := &pb.Notification{Timestamp: h.Int64("ts"), Prefix: &pb.Path{Target: c05DevA}, Atomic: h.Range("atomic", 0, 1) == 1}
	nu := h.Range("nupd", 0, 2)
	for i := 0; i < nu; i++ {
		n.Update = append(n.Update, &pb.Update{Path: &pb.Path{Elem: []*pb.PathElem{{Name: h.Atom("upd")}}}, Val: vIntVal(h.Int64("v"))})
	}
	if h.Range("ndel", 0, 1) == 1 {
		n.Delete = append(n.Delete, &pb.Path{Elem: []*pb.PathElem{{Name: h.Atom("del")}}})
	}
	switch h.Range("item", 0, 2) {
	case 0:
		item = n
	case 1:
		item = nil
	default:
		item = "not a notification"
	}
	dup := h.Uint32("dup")
	before := n.GetUpdate()
	var d0 uint32
	if len(before) > 0 {
		d0 = before[0].Duplicates
	}
	r, err := s.MakeSubscribeResponse(item, dup)
	h.Cover("MakeSubscribeResponse returned")
	if item == interface{}(n) {
		h.Assert(err == nil && r.GetUpdate() != nil, "C12: a stored notification becomes a response")
		if len(before) > 0 {
			h.Assert(before[0].Duplicates == d0, "C12: the cached notification is never modified (it is shared across clients)")
			if s.o.noDupReport || dup == 0 {
				h.Assert(r.GetUpdate() == n, "C12: without a duplicate count the cached notification is sent as is")
			} else {
				h.Assert(r.GetUpdate().Update[0].Duplicates == dup, "C08: the response carries the duplicate count")
			}
		}
	} else {
		h.Assert(err != nil, "C12: an item that is not a notification is an error, not a panic")
	}
}
