package subscribe

// C14 (subscription part) — removing a target ends single-target subscriptions to it cleanly,
// after announcing the whole-target delete, while an all-targets subscription continues.

import (
	"context"

	"github.com/openconfig/gnmi/cache"
	zz "github.com/openconfig/gnmi/zzverif"

	pb "github.com/openconfig/gnmi/proto/gnmi"
)

func VerifC14_StreamEnd(h *zz.H) {
	c := cache.New([]string{c05DevA, c05DevB})
	s, _ := NewServer(c)
	c.SetClient(s.Update)
	c.GnmiUpdate(c04Upd("a", 1))
	mk := func(target string) (*vStream, chan bool) {
		sl := &pb.SubscriptionList{Mode: pb.SubscriptionList_STREAM, Prefix: &pb.Path{Target: target}, Subscription: []*pb.Subscription{{Path: &pb.Path{}}}}
		st := &vStream{ctx: context.Background(), h: h, first: &pb.SubscribeRequest{Request: &pb.SubscribeRequest_Subscribe{Subscribe: sl}}, block: true}
		synced := make(chan bool, 1)
		st.onSend = func(r *pb.SubscribeResponse) error {
			if vIsSync(r) {
				synced <- true
			}
			return nil
		}
		return st, synced
	}
	single, sy1 := mk(c05DevA)
	star, sy2 := mk("*")
	var errSingle, errStar error
	doneSingle, doneStar := make(chan bool, 1), make(chan bool, 1)
	go func() { errSingle = s.Subscribe(single); doneSingle <- true }()
	go func() { errStar = s.Subscribe(star); doneStar <- true }()
	<-sy1
	<-sy2
	which := c05DevA
	if h.Range("remove_other", 0, 1) == 1 {
		which = c05DevB
	}
	c.Remove(which)
	h.Quiesce()
	isTargetDel := func(r *pb.SubscribeResponse) bool {
		n := r.GetUpdate()
		return n != nil && len(n.Delete) == 1 && n.Prefix.GetTarget() == which && len(n.Delete[0].Elem) == 1 && n.Delete[0].Elem[0].Name == "*"
	}
	ended := false
	select {
	case <-doneSingle:
		ended = true
	default:
	}
	if which == c05DevA {
		h.Assert(ended && errSingle == nil, "C14: removing a target ends single-target subscriptions to it cleanly")
		h.Assert(len(single.sent) > 0 && isTargetDel(single.sent[len(single.sent)-1]), "C14: the whole-target delete is the last thing a single-target subscriber receives")
	} else {
		h.Assert(!ended, "C14: removing another target does not end a single-target subscription")
		for _, r := range single.sent {
			h.Assert(!isTargetDel(r), "C14: a single-target subscriber hears nothing about another target")
		}
	}
	select {
	case <-doneStar:
		h.Fail("C14: an all-targets subscription continues after a target is removed")
	default:
	}
	_ = errStar
	got := false
	for _, r := range star.sent {
		got = got || isTargetDel(r)
	}
	h.Assert(got, "C14: the all-targets subscriber receives the whole-target delete")
}
