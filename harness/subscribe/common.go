package subscribe

// Helpers shared by the subscribe harnesses (C04, C05, C06, C07, C08, C12, C14).

import (
	"context"
	"io"

	"google.golang.org/grpc"
	"github.com/openconfig/gnmi/path"
	zz "github.com/openconfig/gnmi/zzverif"

	pb "github.com/openconfig/gnmi/proto/gnmi"
)

// vPath builds a gNMI path with 0..maxElems symbolic element names (no keys) and,
// when withOrigin, a symbolic origin that may be empty.
func vPath(h *zz.H, name string, minElems, maxElems int, withOrigin bool) *pb.Path {
	p := &pb.Path{}
	if withOrigin && h.Range(name+"_hasorigin", 0, 1) == 1 {
		p.Origin = h.Atom(name + "_origin")
		h.Assume(p.Origin != "")
	}
	n := h.Range(name+"_n", minElems, maxElems)
	for i := 0; i < n; i++ {
		p.Elem = append(p.Elem, &pb.PathElem{Name: h.Atom(name)})
	}
	return p
}

// vName draws one element name: an arbitrary string compared only for equality/order (atom) or,
// with BYTES=n, a string of 1..n symbolic ASCII bytes whose content the code may inspect
// (joining, prefix tests).
func vName(h *zz.H, name string) string {
	if b := h.Param("BYTES", 0); b > 0 {
		s := h.Bytes(name, b)
		h.Assume(s != "")
		return s
	}
	return h.Atom(name)
}

func vNames(p *pb.Path) []string {
	var r []string
	for _, e := range p.GetElem() {
		r = append(r, e.Name)
	}
	return r
}

// vAgree: the property's relation on index paths — agree on every element both have.
func vAgree(q, p []string) bool {
	n := len(q)
	if len(p) < n {
		n = len(p)
	}
	ok := true
	for i := 0; i < n; i++ {
		ok = zz.And(ok, zz.Or(q[i] == "*", p[i] == "*", q[i] == p[i]))
	}
	return ok
}

func vIntVal(v int64) *pb.TypedValue {
	return &pb.TypedValue{Value: &pb.TypedValue_IntVal{IntVal: v}}
}

// ---- in-memory Subscribe stream (shared by C04, C05, C07, C08, C12, C14) ----

type vStream struct {
	grpc.ServerStream
	ctx    context.Context
	h      *zz.H
	first  *pb.SubscribeRequest
	polls  chan bool // one token per poll trigger; closed = client half-close (EOF)
	recvs  int
	sent   []*pb.SubscribeResponse
	onSend func(*pb.SubscribeResponse) error
	block  bool // after the scripted requests Recv blocks until the context ends (STREAM clients)
}

func (s *vStream) Context() context.Context { return s.ctx }

func (s *vStream) Send(r *pb.SubscribeResponse) error {
	s.h.Assert(s.h.HeldLocks() == 0, "C08: no lock is held while a response is handed to the transport")
	s.sent = append(s.sent, r)
	if s.onSend != nil {
		if err := s.onSend(r); err != nil {
			return err
		}
	}
	return nil
}

func (s *vStream) Recv() (*pb.SubscribeRequest, error) {
	s.recvs++
	if s.recvs == 1 {
		return s.first, nil
	}
	if s.block {
		<-s.ctx.Done()
		return nil, s.ctx.Err()
	}
	if _, ok := <-s.polls; !ok {
		return nil, io.EOF
	}
	return &pb.SubscribeRequest{Request: &pb.SubscribeRequest_Poll{Poll: &pb.Poll{}}}, nil
}

func vIsSync(r *pb.SubscribeResponse) bool {
	_, ok := r.Response.(*pb.SubscribeResponse_SyncResponse)
	return ok
}

// vLeafSpec is one stored leaf: target, index path (incl. optional origin as first element), value.
type vLeafSpec struct {
	target string
	idx    []string
	origin bool // idx[0] is an origin carried in the prefix
	keyed  bool // the first path element carries two keys k1, k2 whose values are the two index entries after its name
	noti   *pb.Notification
}

func (l vLeafSpec) notification(ts, v int64) *pb.Notification {
	pre := &pb.Path{Target: l.target}
	elems := l.idx
	if l.origin {
		pre.Origin = l.idx[0]
		elems = l.idx[1:]
	}
	var pe []*pb.PathElem
	if l.keyed {
		// index [name, v1, v2, rest...] = element name{k1: v1, k2: v2} followed by plain elements
		pe = append(pe, &pb.PathElem{Name: elems[0], Key: map[string]string{"k2": elems[2], "k1": elems[1]}})
		elems = elems[3:]
	}
	for _, e := range elems {
		pe = append(pe, &pb.PathElem{Name: e})
	}
	return &pb.Notification{Timestamp: ts, Prefix: pre, Update: []*pb.Update{{Path: &pb.Path{Elem: pe}, Val: vIntVal(v)}}}
}

// vTreeMatch: the tree's wildcard rule (C09) — query q matches stored index path p.
func vTreeMatch(q, p []string) bool {
	n := len(q)
	if n > len(p)+1 {
		return false
	}
	m := n
	if m > len(p) {
		m = len(p)
	}
	ok := true
	for i := 0; i < m; i++ {
		ok = zz.And(ok, zz.Or(q[i] == "*", q[i] == p[i]))
	}
	if n == len(p)+1 {
		ok = zz.And(ok, q[n-1] == "*")
	}
	return ok
}

func vSamePath(a, b []string) bool {
	if len(a) != len(b) {
		return false
	}
	ok := true
	for i := range a {
		ok = zz.And(ok, a[i] == b[i])
	}
	return ok
}

// vRespIndex: target and index path (origin first when set) of an update/delete response.
func vRespIndex(r *pb.SubscribeResponse) (string, []string, *pb.Notification) {
	n := r.GetUpdate()
	if n == nil {
		return "", nil, nil
	}
	idx := path.ToStrings(n.Prefix, true)
	tgt := ""
	if n.Prefix.GetTarget() != "" {
		tgt = idx[0]
		idx = idx[1:]
	}
	if len(n.Update) > 0 {
		idx = append(idx, path.ToStrings(n.Update[0].Path, false)...)
	} else if len(n.Delete) > 0 {
		idx = append(idx, path.ToStrings(n.Delete[0], false)...)
	}
	return tgt, idx, n
}

// vCarries: response r carries stored leaf l (same target, index path and timestamp; a coalesced
// response is a clone with a duplicate count, so identity of the notification is not required).
func vCarries(r *pb.SubscribeResponse, l vLeafSpec) bool {
	tgt, idx, n := vRespIndex(r)
	if n == nil || len(n.Update) == 0 || tgt != l.target || len(idx) != len(l.idx) {
		return false
	}
	return zz.And(vSamePath(idx, l.idx), n.Timestamp == l.noti.Timestamp)
}
