package subscribe

// Helpers shared by the subscribe harnesses (C04, C05, C06, C07, C08, C12, C14).

import (
	zz "github.com/openconfig/gnmi/zzverif"

	pb "github.com/openconfig/gnmi/proto/gnmi"
)

// vPath builds a gNMI path with 0..maxElems symbolic element names (no keys) and,
// when withOrigin, a symbolic origin that may be empty.
func vPath(h *zz.H, name string, minElems, maxElems int, withOrigin bool) *pb.Path {
	p := &pb.Path{}
	if withOrigin && h.Range(name+"_hasorigin", 0, 1) == 1 {
		p.Origin = h.Atom(name + "_origin")
		h.Assume(p.Origin != "")
	}
	n := h.Range(name+"_n", minElems, maxElems)
	for i := 0; i < n; i++ {
		p.Elem = append(p.Elem, &pb.PathElem{Name: h.Atom(name)})
	}
	return p
}

func vNames(p *pb.Path) []string {
	var r []string
	for _, e := range p.GetElem() {
		r = append(r, e.Name)
	}
	return r
}

// vAgree: the property's relation on index paths — agree on every element both have.
func vAgree(q, p []string) bool {
	n := len(q)
	if len(p) < n {
		n = len(p)
	}
	ok := true
	for i := 0; i < n; i++ {
		ok = zz.And(ok, zz.Or(q[i] == "*", p[i] == "*", q[i] == p[i]))
	}
	return ok
}

func vIntVal(v int64) *pb.TypedValue {
	return &pb.TypedValue{Value: &pb.TypedValue_IntVal{IntVal: v}}
}
