package target

// C17 — target config loads are monotonic and announced as exact diffs.

import (
	"google.golang.org/protobuf/proto"
	zz "github.com/openconfig/gnmi/zzverif"

	gpb "github.com/openconfig/gnmi/proto/gnmi"
	pb "github.com/openconfig/gnmi/proto/target"
)

type c17Entry struct {
	t *pb.Target
	r *gpb.SubscribeRequest
}

// c17Config builds a symbolic configuration: 0..T targets, 0..R requests. Names are arbitrary
// strings (possibly empty or coinciding), a target may be nil, have no address, name no or an
// unknown request; request bodies differ in one symbolic scalar.
func c17Config(h *zz.H, tag string, T, R int) *pb.Configuration {
	c := &pb.Configuration{Revision: h.Int64(tag + "_rev")}
	nr := h.Range(tag+"_nreq", 0, R)
	if nr > 0 {
		c.Request = map[string]*gpb.SubscribeRequest{}
	}
	for i := 0; i < nr; i++ {
		c.Request[h.Atom(tag+"_reqname")] = &gpb.SubscribeRequest{Request: &gpb.SubscribeRequest_Subscribe{
			Subscribe: &gpb.SubscriptionList{Prefix: &gpb.Path{Target: h.Atom(tag + "_reqbody")}}}}
	}
	nt := h.Range(tag+"_ntgt", 0, T)
	if nt > 0 {
		c.Target = map[string]*pb.Target{}
	}
	for i := 0; i < nt; i++ {
		name := h.Atom(tag + "_tname")
		if h.Param("NILTARGET", 1) == 1 && h.Range(tag+"_tnil", 0, 3) == 3 {
			c.Target[name] = nil
			continue
		}
		t := &pb.Target{Request: h.Atom(tag + "_treq"), Dialer: h.Atom(tag + "_dialer")}
		if h.Range(tag+"_naddr", 0, 1) == 1 {
			t.Addresses = []string{h.Atom(tag + "_addr")}
		}
		c.Target[name] = t
	}
	return c
}

// c17Valid mirrors the documented validity rule.
func c17Valid(c *pb.Configuration) bool {
	ok := true
	for name, t := range c.Target {
		if t == nil {
			return false
		}
		_, has := c.Request[t.Request]
		ok = zz.And(ok, name != "", len(t.Addresses) > 0, t.Request != "", has)
	}
	return ok
}

// c17State: the replayed handler calls of one Config.
type c17State struct {
	h          *zz.H
	model      map[string]c17Entry
	calls      []string
	adds, upds map[string]bool
	c          *Config
	cur        *pb.Configuration // deep copy of the last accepted configuration
}

func c17New(h *zz.H) *c17State {
	st := &c17State{h: h, model: map[string]c17Entry{}, adds: map[string]bool{}, upds: map[string]bool{}}
	// the replayed state keeps deep copies taken at call time: what a handler was told, not
	// whatever the objects it was handed turn into later
	ent := func(u Update) c17Entry {
		e := c17Entry{}
		if u.Target != nil {
			e.t = proto.Clone(u.Target).(*pb.Target)
		}
		if u.Request != nil {
			e.r = proto.Clone(u.Request).(*gpb.SubscribeRequest)
		}
		return e
	}
	hd := Handler{
		Add: func(u Update) {
			_, had := st.model[u.Name]
			h.Assert(!had, "C17: Add only for a target the replayed state does not hold")
			st.model[u.Name] = ent(u)
			st.calls = append(st.calls, u.Name)
			st.adds[u.Name] = true
		},
		Update: func(u Update) {
			_, had := st.model[u.Name]
			h.Assert(had, "C17: Update only for a target the replayed state holds")
			st.model[u.Name] = ent(u)
			st.calls = append(st.calls, u.Name)
			st.upds[u.Name] = true
		},
		Delete: func(name string) {
			_, had := st.model[name]
			h.Assert(had, "C17: Delete only for a target the replayed state holds")
			delete(st.model, name)
			st.calls = append(st.calls, name)
		},
	}
	st.c = NewConfig(hd)
	return st
}

// load performs one Load and checks it against the property.
func (st *c17State) load(cfg *pb.Configuration) {
	h, c, cur := st.h, st.c, st.cur
	valid := c17Valid(cfg)
	accept := zz.And(valid, zz.Or(cur == nil, cfg.Revision > cur.GetRevision()))
	before := c.Current()
	st.calls = nil
	for n := range st.adds {
		delete(st.adds, n)
	}
	for n := range st.upds {
		delete(st.upds, n)
	}
	err := c.Load(cfg)
	h.Trace("load", err == nil, len(st.calls))
	h.Assert((err == nil) == accept, "C17: a load is applied iff the configuration is valid and its revision strictly greater")
	now := c.Current()
	if err != nil {
		h.Assert(len(st.calls) == 0, "C17: a rejected load runs no handler")
		h.Assert(proto.Equal(before, now), "C17: a rejected load changes nothing")
		return
	}
	for n := range st.adds {
		h.Assert(!st.upds[n], "C17: never both Add and Update for one target in one load")
	}
	// unchanged targets get no call
	for name, nt := range cfg.Target {
		ot, had := cur.GetTarget()[name]
		if !had {
			continue
		}
		same := zz.And(proto.Equal(ot, nt), proto.Equal(cur.GetRequest()[ot.GetRequest()], cfg.GetRequest()[nt.GetRequest()]))
		called := false
		for _, cn := range st.calls {
			called = zz.Or(called, cn == name)
		}
		h.Assert(zz.Implies(same, !called), "C17: a target whose settings and request are unchanged produces no handler call")
	}
	st.cur = proto.Clone(cfg).(*pb.Configuration)
	h.Assert(proto.Equal(now, cfg), "C17: the current configuration is the accepted one")
	// the replayed state equals the current configuration
	h.Assert(len(st.model) == len(cfg.Target), "C17: replayed state has exactly the current targets")
	for name, t := range cfg.Target {
		e, ok := st.model[name]
		h.Assert(ok, "C17: every current target is in the replayed state")
		if ok {
			h.Assert(proto.Equal(e.t, t), "C17: replayed target settings equal the current ones")
			h.Assert(proto.Equal(e.r, cfg.Request[t.Request]), "C17: replayed subscription request equals the current one")
		}
	}
}

// VerifC17_Loads: a load is applied iff valid and strictly newer; replaying the handler calls of
// the accepted loads yields exactly the current configuration; unchanged targets get no call.
func VerifC17_Loads(h *zz.H) {
	T, R, N := h.Param("T", 2), h.Param("R", 2), h.Param("N", 2)
	st := c17New(h)
	for k := 0; k < N; k++ {
		cfg := c17Config(h, "c", T, R)
		if h.Param("VALID", 0) == 1 && k < N-1 {
			// all but the last load are assumed valid: invalid ones are rejected without effect,
			// which the last (unconstrained) load of every sequence decides
			h.Assume(c17Valid(cfg))
		}
		st.load(cfg)
	}
}

// VerifC17_ReadModifyWrite: the usual way a configuration is edited — take Current(), edit the
// copy in place (request bodies, target settings, removal of a target), bump the revision (or
// not) and Load it. Editing the copy changes nothing until it is loaded; the load is then
// announced as the exact diff.
func VerifC17_ReadModifyWrite(h *zz.H) {
	T, R := h.Param("T", 2), h.Param("R", 2)
	st := c17New(h)
	cfg := c17Config(h, "c", T, R)
	h.Assume(c17Valid(cfg))
	st.load(cfg)
	frozen := proto.Clone(st.c.Current()).(*pb.Configuration)
	next := st.c.Current()
	edited := false
	for _, r := range next.Request {
		if h.Range("edit_request", 0, 1) == 1 {
			r.GetSubscribe().Prefix.Target = h.Atom("new_reqbody")
			edited = true
		}
	}
	for name, t := range next.Target {
		switch h.Range("edit_target", 0, 2) {
		case 1:
			t.Dialer = h.Atom("new_dialer")
			edited = true
		case 2:
			delete(next.Target, name)
			edited = true
		}
	}
	h.Cover("configuration edited through a copy")
	_ = edited
	h.Assert(proto.Equal(st.c.Current(), frozen), "C17: editing the copy returned by Current changes nothing until it is loaded")
	next.Revision = h.Int64("next_rev")
	st.load(next)
}
