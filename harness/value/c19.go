package value

// C19 (value part) — value equality is total, symmetric and sound; Go scalar ->
// TypedValue -> Go scalar is the identity up to integer width and float precision.

import (
	"google.golang.org/protobuf/proto"
	zz "github.com/openconfig/gnmi/zzverif"

	pb "github.com/openconfig/gnmi/proto/gnmi"
)

func c19Bytes(h *zz.H, name string, maxLen int) []byte {
	n := h.Range(name+"_len", 0, maxLen)
	if n == 0 && h.Range(name+"_nil", 0, 1) == 1 {
		return nil
	}
	b := make([]byte, n)
	for i := range b {
		b[i] = h.Byte(name)
	}
	return b
}

// c19Value builds a TypedValue of any oneof arm (or nil message / unset value) with a symbolic payload.
// depth > 0 allows leaf-lists whose elements are built with depth-1.
func c19Value(h *zz.H, name string, depth int) *pb.TypedValue {
	max := 13
	if depth == 0 {
		max = 12
	}
	kind := h.Param("ONLYKIND", -1) // a run may focus on one arm (e.g. decimal pairs under the FP-capable solver)
	if kind < 0 || depth < h.Param("DEPTH", 1) {
		kind = h.Range(name+"_kind", 0, max)
	}
	switch kind {
	case 0:
		return nil
	case 1:
		return &pb.TypedValue{}
	case 2:
		return &pb.TypedValue{Value: &pb.TypedValue_StringVal{StringVal: h.Atom(name + "_s")}}
	case 3:
		return &pb.TypedValue{Value: &pb.TypedValue_IntVal{IntVal: h.Int64(name + "_i")}}
	case 4:
		return &pb.TypedValue{Value: &pb.TypedValue_UintVal{UintVal: h.Uint64(name + "_u")}}
	case 5:
		return &pb.TypedValue{Value: &pb.TypedValue_BoolVal{BoolVal: h.Bool(name + "_b")}}
	case 6:
		return &pb.TypedValue{Value: &pb.TypedValue_BytesVal{BytesVal: c19Bytes(h, name+"_bytes", 2)}}
	case 7:
		return &pb.TypedValue{Value: &pb.TypedValue_DoubleVal{DoubleVal: h.Float64(name + "_d")}}
	case 8:
		return &pb.TypedValue{Value: &pb.TypedValue_FloatVal{FloatVal: h.Float32(name + "_f")}}
	case 9:
		return &pb.TypedValue{Value: &pb.TypedValue_DecimalVal{DecimalVal: &pb.Decimal64{Digits: h.Int64(name + "_digits"), Precision: h.Uint32(name + "_prec")}}}
	case 10:
		return &pb.TypedValue{Value: &pb.TypedValue_JsonVal{JsonVal: c19Bytes(h, name+"_json", 1)}}
	case 11:
		return &pb.TypedValue{Value: &pb.TypedValue_AsciiVal{AsciiVal: h.Atom(name + "_ascii")}}
	case 12:
		return &pb.TypedValue{Value: &pb.TypedValue_JsonIetfVal{JsonIetfVal: c19Bytes(h, name+"_jsonietf", 1)}}
	default:
		sa := &pb.ScalarArray{}
		n := h.Range(name+"_ll", 0, 2)
		for i := 0; i < n; i++ {
			e := c19Value(h, name+"_e", depth-1)
			if e == nil {
				e = &pb.TypedValue{} // repeated message elements are non-nil in a decoded message
			}
			sa.Element = append(sa.Element, e)
		}
		return &pb.TypedValue{Value: &pb.TypedValue_LeaflistVal{LeaflistVal: sa}}
	}
}

// VerifC19_Equal: for every pair of oneof arms (nil message and unset value included): Equal never
// panics, is symmetric, and only reports structurally equal values as equal.
func VerifC19_Equal(h *zz.H) {
	a := c19Value(h, "a", h.Param("DEPTH", 1))
	b := c19Value(h, "b", h.Param("DEPTH", 1))
	ab := Equal(a, b)
	ba := Equal(b, a)
	h.Trace("equal", ab, ba)
	h.Assert(ab == ba, "C19: value equality is symmetric")
	if ab {
		h.Assert(proto.Equal(a, b), "C19: value equality never reports two different values as equal")
	}
	h.Assert(Equal(a, a) == Equal(a, a), "C19: value equality is total")
}

// VerifC19_Scalar: FromScalar then ToScalar returns the same scalar up to integer width / float precision.
func VerifC19_Scalar(h *zz.H) {
	var in, want interface{}
	switch h.Range("type", 0, 15) {
	case 0:
		s := h.Atom("s")
		in, want = s, s
	case 1:
		v := h.Int64("i")
		in, want = int(v), v
	case 2:
		v := int8(h.Int64("i"))
		in, want = v, int64(v)
	case 3:
		v := int16(h.Int64("i"))
		in, want = v, int64(v)
	case 4:
		v := h.Int32("i")
		in, want = v, int64(v)
	case 5:
		v := h.Int64("i")
		in, want = v, v
	case 6:
		v := h.Uint64("u")
		in, want = uint(v), v
	case 7:
		v := h.Byte("u")
		in, want = v, uint64(v)
	case 8:
		v := uint16(h.Uint32("u"))
		in, want = v, uint64(v)
	case 9:
		v := h.Uint32("u")
		in, want = v, uint64(v)
	case 10:
		v := h.Uint64("u")
		in, want = v, v
	case 11:
		v := h.Float32("f")
		h.Assume(v == v)
		in, want = v, float64(v)
	case 12:
		v := h.Float64("d")
		h.Assume(v == v)
		in, want = v, v
	case 13:
		v := h.Bool("b")
		in, want = v, v
	case 14:
		n := h.Range("n", 0, 2)
		ss := make([]string, n)
		ws := make([]interface{}, n)
		for i := range ss {
			ss[i] = h.Atom("e")
			ws[i] = ss[i]
		}
		in, want = ss, ws
	default:
		n := h.Range("n", 0, 2)
		is := make([]interface{}, n)
		ws := make([]interface{}, n)
		for i := range is {
			if h.Range("ek", 0, 1) == 0 {
				v := h.Int32("ei")
				is[i], ws[i] = v, int64(v)
			} else {
				v := h.Bool("eb")
				is[i], ws[i] = v, v
			}
		}
		in, want = is, ws
	}
	tv, err := FromScalar(in)
	if s, ok := in.(string); ok {
		_ = s
		if err != nil {
			h.Cover("invalid utf-8 rejected")
			return
		}
	} else {
		h.Assert(err == nil, "C19: every supported Go scalar converts")
	}
	if err != nil {
		return
	}
	out, err2 := ToScalar(tv)
	h.Assert(err2 == nil, "C19: a converted scalar converts back")
	if ws, ok := want.([]interface{}); ok {
		os, ok2 := out.([]interface{})
		h.Assert(ok2 && len(os) == len(ws), "C19: list round trip keeps the length")
		if ok2 && len(os) == len(ws) {
			eq := true
			for i := range ws {
				eq = zz.And(eq, os[i] == ws[i])
			}
			h.Assert(eq, "C19: list round trip keeps every element")
		}
		return
	}
	h.Assert(out == want, "C19: scalar round trip is the identity up to integer width and float precision")
}

// VerifC19_Bytes: []byte round trip.
func VerifC19_Bytes(h *zz.H) {
	b := c19Bytes(h, "b", 3)
	tv, err := FromScalar(b)
	h.Assert(err == nil, "C19: []byte converts")
	out, err2 := ToScalar(tv)
	h.Assert(err2 == nil, "C19: bytes convert back")
	ob, ok := out.([]byte)
	h.Assert(ok && string(ob) == string(b), "C19: bytes round trip is the identity")
}
