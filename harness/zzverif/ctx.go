package zzverif

// A cancel-tree model of package context, written in Go and executed
// symbolically like any other code (DESIGN §3.7). The engine substitutes
// context.Background/WithCancel/WithTimeout/WithValue by these functions.

import (
	"context"
	"sync"
	"time"
)

type vctx struct {
	parent   *vctx
	done     chan struct{}
	mu       sync.Mutex
	err      error
	children []*vctx
	key, val interface{}
	isValue  bool
	cause    error
}

func (c *vctx) Deadline() (time.Time, bool) { return time.Time{}, false }

func (c *vctx) Done() <-chan struct{} {
	if c.isValue {
		return c.parent.Done()
	}
	return c.done
}

func (c *vctx) Err() error {
	if c.isValue {
		return c.parent.Err()
	}
	c.mu.Lock()
	defer c.mu.Unlock()
	return c.err
}

func (c *vctx) Value(key interface{}) interface{} {
	for x := c; x != nil; x = x.parent {
		if x.isValue && x.key == key {
			return x.val
		}
	}
	return nil
}

func (c *vctx) cancel(err error) {
	c.mu.Lock()
	if c.err != nil {
		c.mu.Unlock()
		return
	}
	c.err = err
	close(c.done)
	kids := c.children
	c.children = nil
	c.mu.Unlock()
	for _, k := range kids {
		k.cancel(err)
	}
}

var background = &vctx{done: make(chan struct{})}

func Background() context.Context { return &vctx{done: make(chan struct{})} }

func cancelable(parent context.Context) *vctx {
	p, ok := parent.(*vctx)
	if !ok {
		panic("zzverif: foreign context implementation")
	}
	for p.isValue {
		p = p.parent
	}
	return p
}

func WithCancel(parent context.Context) (context.Context, context.CancelFunc) {
	pv, _ := parent.(*vctx)
	p := cancelable(parent)
	c := &vctx{parent: pv, done: make(chan struct{})}
	p.mu.Lock()
	if p.err != nil {
		err := p.err
		p.mu.Unlock()
		c.cancel(err)
	} else {
		p.children = append(p.children, c)
		p.mu.Unlock()
	}
	return c, func() { c.cancel(context.Canceled) }
}

// WithTimeout: the deadline is an environment event that may fire at any scheduling point.
func WithTimeout(parent context.Context, d time.Duration) (context.Context, context.CancelFunc) {
	ctx, cancel := WithCancel(parent)
	c := ctx.(*vctx)
	t := time.AfterFunc(d, func() { c.cancel(context.DeadlineExceeded) })
	return ctx, func() { t.Stop(); cancel() }
}

func WithDeadline(parent context.Context, d time.Time) (context.Context, context.CancelFunc) {
	return WithTimeout(parent, 0)
}

func WithValue(parent context.Context, key, val interface{}) context.Context {
	pv, _ := parent.(*vctx)
	return &vctx{parent: pv, isValue: true, key: key, val: val}
}

func WithCancelCause(parent context.Context) (context.Context, context.CancelCauseFunc) {
	ctx, _ := WithCancel(parent)
	c := ctx.(*vctx)
	return ctx, func(cause error) {
		c.mu.Lock()
		if c.err == nil && c.cause == nil {
			c.cause = cause
		}
		c.mu.Unlock()
		c.cancel(context.Canceled)
	}
}

func Cause(ctx context.Context) error {
	c, ok := ctx.(*vctx)
	if !ok {
		return nil
	}
	for x := c; x != nil; x = x.parent {
		if x.isValue {
			continue
		}
		x.mu.Lock()
		err, cause := x.err, x.cause
		x.mu.Unlock()
		if cause != nil {
			return cause
		}
		if err != nil {
			return err
		}
	}
	return nil
}

// WithoutCancel: a context that keeps the values but is never cancelled.
func WithoutCancel(parent context.Context) context.Context {
	pv, _ := parent.(*vctx)
	nc := &vctx{done: make(chan struct{})}
	// values are looked up through the parent chain; cancellation is cut by a fresh root
	return &vctx{parent: &vctx{parent: valuesOnly(pv), isValue: true}, isValue: true, key: nc, val: nc}
}

func valuesOnly(p *vctx) *vctx {
	if p == nil {
		return &vctx{done: make(chan struct{})}
	}
	if !p.isValue {
		return valuesOnly(p.parent)
	}
	return &vctx{parent: valuesOnly(p.parent), isValue: true, key: p.key, val: p.val}
}

// AfterFunc runs f in its own goroutine once ctx is done.
func AfterFunc(ctx context.Context, f func()) (stop func() bool) {
	stopped := make(chan struct{})
	var once sync.Once
	ran := false
	go func() {
		select {
		case <-ctx.Done():
			once.Do(func() { ran = true })
			if ran {
				f()
			}
		case <-stopped:
		}
	}()
	return func() bool {
		won := false
		once.Do(func() { won = true; close(stopped) })
		return won
	}
}
