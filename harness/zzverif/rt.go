// Package zzverif is the harness runtime. It is overlaid into the repository
// tree as github.com/openconfig/gnmi/zzverif (no file is written into /repo).
//
// Under the symbolic engine (gosym) every method of H is intercepted: the nondet
// functions return symbolic values, Assume/Assert become solver queries. Natively
// (go test -overlay) the same harness runs in replay mode: H hands out the
// concrete values of a counterexample or witness written by the engine.
package zzverif

import (
	"encoding/json"
	"fmt"
	"math"
	"os"
	"strconv"
	"strings"
)

type Input struct {
	Kind  string      `json:"kind"`
	Name  string      `json:"name"`
	Value interface{} `json:"value"`
}

type Case struct {
	Entry  string   `json:"entry"`
	Inputs []Input  `json:"inputs"`
	Traces []string `json:"traces"`
	Params map[string]int `json:"params"`
	Expect string   `json:"expect"` // "ok" or "violation"
	Msg    string   `json:"msg"`
	Kind   string   `json:"kind"`
	Tries  int      `json:"tries"`
}

type Result struct {
	Entry     string   `json:"entry"`
	Outcome   string   `json:"outcome"` // ok, assert, panic, diverged
	Detail    string   `json:"detail"`
	TraceOK   bool     `json:"trace_ok"`
	Traces    []string `json:"traces"`
	Tries     int      `json:"tries"`
}

type H struct {
	c       *Case
	pos     int
	failed  []string
	traces  []string
}

type diverged struct{ why string }
type stopAfterFail struct{}

func (h *H) next(kind, name string) Input {
	if h.c == nil {
		panic(diverged{"no replay case"})
	}
	for h.pos < len(h.c.Inputs) {
		in := h.c.Inputs[h.pos]
		h.pos++
		if in.Kind == "rnd" || in.Kind == "clock" || in.Kind == "utf8ok" {
			continue // environment values are not consumed through H
		}
		if in.Kind != kind || in.Name != name {
			panic(diverged{fmt.Sprintf("input %d is %s/%s, harness asked for %s/%s", h.pos-1, in.Kind, in.Name, kind, name)})
		}
		return in
	}
	if len(h.failed) > 0 {
		// the engine ended this path at the first violated assertion
		panic(stopAfterFail{})
	}
	panic(diverged{"inputs exhausted at " + kind + "/" + name})
}

func (h *H) Atom(name string) string { return h.next("atom", name).Value.(string) }

func (h *H) bigInt(kind, name string) (int64, uint64) {
	s := h.next(kind, name).Value.(string)
	if kind == "uint" {
		u, _ := strconv.ParseUint(s, 10, 64)
		return int64(u), u
	}
	i, _ := strconv.ParseInt(s, 10, 64)
	return i, uint64(i)
}

func (h *H) Int64(name string) int64   { i, _ := h.bigInt("int", name); return i }
func (h *H) Int32(name string) int32   { i, _ := h.bigInt("int", name); return int32(i) }
func (h *H) Uint64(name string) uint64 { _, u := h.bigInt("uint", name); return u }
func (h *H) Uint32(name string) uint32 { _, u := h.bigInt("uint", name); return uint32(u) }
func (h *H) Byte(name string) byte     { _, u := h.bigInt("uint", name); return byte(u) }
func (h *H) Bool(name string) bool     { return h.next("bool", name).Value.(bool) }

func parseFloat(s string) float64 {
	// %b format: mantissa p exponent
	f, err := strconv.ParseFloat(s, 64)
	if err == nil {
		return f
	}
	if i := strings.Index(s, "p"); i > 0 {
		m, _ := strconv.ParseInt(s[:i], 10, 64)
		e, _ := strconv.Atoi(s[i+1:])
		if m == 0 && strings.HasPrefix(s, "-") {
			return math.Copysign(0, -1)
		}
		return math.Ldexp(float64(m), e)
	}
	switch s {
	case "NaN":
		return math.NaN()
	case "+Inf":
		return math.Inf(1)
	case "-Inf":
		return math.Inf(-1)
	}
	return 0
}

func (h *H) Float64(name string) float64 { return parseFloat(h.next("f64", name).Value.(string)) }
func (h *H) Float32(name string) float32 { return float32(parseFloat(h.next("f32", name).Value.(string))) }

func (h *H) Range(name string, lo, hi int) int {
	return int(h.next("range", name).Value.(float64))
}

func (h *H) Bytes(name string, maxLen int) string { return h.next("bytes", name).Value.(string) }

func (h *H) Assume(b bool) {
	if !b {
		panic(diverged{"assumption false in native replay"})
	}
}

func (h *H) Assert(b bool, msg string) {
	if !b {
		h.failed = append(h.failed, msg)
	}
}

func (h *H) Fail(msg string) { h.failed = append(h.failed, msg) }

// Known declares a region of the input space in which violations are classified
// under a key of /verif/known_findings.txt (only keys listed there are honoured).
// When only is given the region applies just to violations whose message contains one of these strings.
func (h *H) Known(key string, region bool, only ...string) {}

func (h *H) Cover(label string) {}

// Param returns a bound parameter of the run (tier dependent), default def.
func (h *H) Param(name string, def int) int {
	if h.c != nil {
		if v, ok := h.c.Params[name]; ok {
			return v
		}
	}
	return def
}

func fmtTrace(v interface{}) string {
	switch x := v.(type) {
	case nil:
		return "<nil>"
	case error:
		return "<error>"
	case string:
		return fmt.Sprintf("%q", x)
	case float64:
		return fmt.Sprintf("%b", x)
	case float32:
		return fmt.Sprintf("%b", float64(x))
	case []string:
		parts := make([]string, len(x))
		for i, s := range x {
			parts[i] = fmt.Sprintf("%q", s)
		}
		return "[" + strings.Join(parts, " ") + "]"
	}
	return fmt.Sprint(v)
}

func (h *H) Trace(label string, v ...interface{}) {
	parts := make([]string, len(v))
	for i, x := range v {
		parts[i] = fmtTrace(x)
	}
	h.traces = append(h.traces, label+"="+strings.Join(parts, ","))
}

// Scheduling helpers: meaningful only under the engine.
func (h *H) Quiesce()       {}
func (h *H) QuiesceAll()    {}
func (h *H) Yield()         {}
func (h *H) AwaitBegin()    {}
func (h *H) AwaitEnd()      {}

// Await receives one token from ch. Under the engine, a path on which the token can never arrive
// (nothing can run any more: the scripted outcomes and environment-event bound are used up) is
// dropped like a false assumption instead of being reported as a deadlock of the code under test.
func (h *H) Await(ch chan bool) {
	h.AwaitBegin()
	<-ch
	h.AwaitEnd()
}
func (h *H) HeldLocks() int { return 0 }

// ArmedTimers is the number of timers currently armed (engine only).
func (h *H) ArmedTimers() int { return 0 }

// NegativeTimerDelay reports whether some timer was armed (time.NewTimer, Timer.Reset) with a
// negative delay on this run (engine only).
func (h *H) NegativeTimerDelay() bool { return false }
func (h *H) Symbolic() bool { return false }
func (h *H) GoID() int      { return 0 }
func (h *H) EnvEvents() int { return 0 }
func (h *H) Blocked() int   { return 0 }

// SameBacking reports whether two slices share their backing array (engine: exact; native: by address of cap-extended first element).
func (h *H) SameBacking(a, b interface{}) bool { return false }

// RunCases is called from the generated replay test.
func RunCases(funcs map[string]func(*H)) int {
	path := os.Getenv("VERIF_REPLAY")
	data, err := os.ReadFile(path)
	if err != nil {
		fmt.Println("VERIF-REPLAY: cannot read", path, err)
		return 2
	}
	var cases []*Case
	if err := json.Unmarshal(data, &cases); err != nil {
		fmt.Println("VERIF-REPLAY: bad json", err)
		return 2
	}
	var results []*Result
	for _, c := range cases {
		f := funcs[c.Entry]
		if f == nil {
			results = append(results, &Result{Entry: c.Entry, Outcome: "diverged", Detail: "no such harness"})
			continue
		}
		tries := c.Tries
		if tries < 1 {
			tries = 1
		}
		var r *Result
		for i := 0; i < tries; i++ {
			r = runOne(c, f)
			r.Tries = i + 1
			if c.Expect == "violation" && (r.Outcome == "assert" || r.Outcome == "panic") {
				break
			}
			if c.Expect == "ok" && r.Outcome != "ok" {
				break
			}
		}
		results = append(results, r)
	}
	out, _ := json.MarshalIndent(results, "", " ")
	os.WriteFile(path+".out", out, 0644)
	return 0
}

func runOne(c *Case, f func(*H)) (r *Result) {
	h := &H{c: c}
	r = &Result{Entry: c.Entry}
	defer func() {
		if p := recover(); p != nil {
			if d, ok := p.(diverged); ok {
				r.Outcome, r.Detail = "diverged", d.why
				return
			}
			if _, ok := p.(stopAfterFail); ok {
				r.Outcome, r.Detail = "assert", strings.Join(h.failed, "; ")
				r.Traces = h.traces
				return
			}
			r.Outcome, r.Detail = "panic", fmt.Sprint(p)
			r.Traces = h.traces
		}
	}()
	f(h)
	r.Traces = h.traces
	r.TraceOK = true
	if c.Traces != nil {
		if len(c.Traces) != len(h.traces) {
			r.TraceOK = false
		} else {
			for i := range c.Traces {
				if c.Traces[i] != h.traces[i] && !strings.Contains(c.Traces[i], "<opaque>") {
					r.TraceOK = false
				}
			}
		}
	}
	if len(h.failed) > 0 {
		r.Outcome, r.Detail = "assert", strings.Join(h.failed, "; ")
		return
	}
	r.Outcome = "ok"
	return
}

// Probes: callbacks at entry/exit of named real functions (engine only).
func (h *H) OnEntry(fn string, f func()) {}
func (h *H) OnExit(fn string, f func())  {}

// Branch-free boolean connectives: natively ordinary functions; under the engine
// they build one formula instead of forking the path at every && / ||.
func And(bs ...bool) bool {
	for _, b := range bs {
		if !b {
			return false
		}
	}
	return true
}

func Or(bs ...bool) bool {
	for _, b := range bs {
		if b {
			return true
		}
	}
	return false
}

func Implies(a, b bool) bool { return !a || b }

func IteInt(c bool, a, b int64) int64 {
	if c {
		return a
	}
	return b
}
