package zzverif

// Go-written models of a few package strings functions over byte sequences (DESIGN §3.7).
// The engine substitutes them when an argument is a symbolic "bytes" string; they are ordinary
// code and are executed symbolically (forking on byte comparisons). ASCII only.

func hasPrefixAt(s string, i int, sub string) bool {
	if i+len(sub) > len(s) {
		return false
	}
	for j := 0; j < len(sub); j++ {
		if s[i+j] != sub[j] {
			return false
		}
	}
	return true
}

func StringsContains(s, sub string) bool {
	for i := 0; i+len(sub) <= len(s); i++ {
		if hasPrefixAt(s, i, sub) {
			return true
		}
	}
	return false
}

func StringsReplace(s, old, new string, n int) string {
	if old == "" {
		return s
	}
	var out []byte
	for i := 0; i < len(s); {
		if n != 0 && hasPrefixAt(s, i, old) {
			out = append(out, new...)
			i += len(old)
			if n > 0 {
				n--
			}
			continue
		}
		out = append(out, s[i])
		i++
	}
	return string(out)
}

func StringsSplit(s, sep string) []string {
	if sep == "" {
		var r []string
		for i := 0; i < len(s); i++ {
			r = append(r, string([]byte{s[i]}))
		}
		return r
	}
	var r []string
	start := 0
	for i := 0; i+len(sep) <= len(s); {
		if hasPrefixAt(s, i, sep) {
			r = append(r, s[start:i])
			i += len(sep)
			start = i
			continue
		}
		i++
	}
	return append(r, s[start:])
}

func StringsTrim(s, cutset string) string {
	in := func(b byte) bool {
		for j := 0; j < len(cutset); j++ {
			if cutset[j] == b {
				return true
			}
		}
		return false
	}
	lo, hi := 0, len(s)
	for lo < hi && in(s[lo]) {
		lo++
	}
	for hi > lo && in(s[hi-1]) {
		hi--
	}
	return s[lo:hi]
}
