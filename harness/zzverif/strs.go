package zzverif

// Go-written models of a few package strings functions over byte sequences (DESIGN §3.7).
// The engine substitutes them when an argument is a symbolic "bytes" string; they are ordinary
// code and are executed symbolically (forking on byte comparisons). ASCII only.

func hasPrefixAt(s string, i int, sub string) bool {
	if i+len(sub) > len(s) {
		return false
	}
	for j := 0; j < len(sub); j++ {
		if s[i+j] != sub[j] {
			return false
		}
	}
	return true
}

func StringsContains(s, sub string) bool {
	for i := 0; i+len(sub) <= len(s); i++ {
		if hasPrefixAt(s, i, sub) {
			return true
		}
	}
	return false
}

func StringsReplace(s, old, new string, n int) string {
	if old == "" {
		return s
	}
	var out []byte
	for i := 0; i < len(s); {
		if n != 0 && hasPrefixAt(s, i, old) {
			out = append(out, new...)
			i += len(old)
			if n > 0 {
				n--
			}
			continue
		}
		out = append(out, s[i])
		i++
	}
	return string(out)
}

func StringsSplit(s, sep string) []string {
	if sep == "" {
		var r []string
		for i := 0; i < len(s); i++ {
			r = append(r, string([]byte{s[i]}))
		}
		return r
	}
	var r []string
	start := 0
	for i := 0; i+len(sep) <= len(s); {
		if hasPrefixAt(s, i, sep) {
			r = append(r, s[start:i])
			i += len(sep)
			start = i
			continue
		}
		i++
	}
	return append(r, s[start:])
}

func StringsTrim(s, cutset string) string {
	in := func(b byte) bool {
		for j := 0; j < len(cutset); j++ {
			if cutset[j] == b {
				return true
			}
		}
		return false
	}
	lo, hi := 0, len(s)
	for lo < hi && in(s[lo]) {
		lo++
	}
	for hi > lo && in(s[hi-1]) {
		hi--
	}
	return s[lo:hi]
}

// ---- errors ----

func ErrorsUnwrap(err error) error {
	u, ok := err.(interface{ Unwrap() error })
	if !ok {
		return nil
	}
	return u.Unwrap()
}

func ErrorsIs(err, target error) bool {
	for steps := 0; steps < 8; steps++ {
		if err == target {
			return true
		}
		if err == nil {
			return false
		}
		if x, ok := err.(interface{ Is(error) bool }); ok && x.Is(target) {
			return true
		}
		switch x := err.(type) {
		case interface{ Unwrap() error }:
			err = x.Unwrap()
		case interface{ Unwrap() []error }:
			for _, e := range x.Unwrap() {
				if ErrorsIs(e, target) {
					return true
				}
			}
			return false
		default:
			return false
		}
	}
	return false
}

// ---- internal/bytealg (package bytes and strings are built on these) ----

func BytealgIndexByte(b []byte, c byte) int {
	for i := 0; i < len(b); i++ {
		if b[i] == c {
			return i
		}
	}
	return -1
}

func BytealgIndexByteString(s string, c byte) int {
	for i := 0; i < len(s); i++ {
		if s[i] == c {
			return i
		}
	}
	return -1
}

func BytealgLastIndexByte(b []byte, c byte) int {
	for i := len(b) - 1; i >= 0; i-- {
		if b[i] == c {
			return i
		}
	}
	return -1
}

func BytealgLastIndexByteString(s string, c byte) int {
	for i := len(s) - 1; i >= 0; i-- {
		if s[i] == c {
			return i
		}
	}
	return -1
}

func BytealgCount(b []byte, c byte) int {
	n := 0
	for i := 0; i < len(b); i++ {
		if b[i] == c {
			n++
		}
	}
	return n
}

func BytealgCountString(s string, c byte) int {
	n := 0
	for i := 0; i < len(s); i++ {
		if s[i] == c {
			n++
		}
	}
	return n
}

func BytealgEqual(a, b []byte) bool {
	if len(a) != len(b) {
		return false
	}
	for i := range a {
		if a[i] != b[i] {
			return false
		}
	}
	return true
}

func BytealgCompare(a, b []byte) int {
	n := len(a)
	if len(b) < n {
		n = len(b)
	}
	for i := 0; i < n; i++ {
		if a[i] < b[i] {
			return -1
		}
		if a[i] > b[i] {
			return 1
		}
	}
	if len(a) < len(b) {
		return -1
	}
	if len(a) > len(b) {
		return 1
	}
	return 0
}

func BytealgIndex(a, b []byte) int {
	for i := 0; i+len(b) <= len(a); i++ {
		if BytealgEqual(a[i:i+len(b)], b) {
			return i
		}
	}
	return -1
}

func BytealgIndexString(a, b string) int {
	for i := 0; i+len(b) <= len(a); i++ {
		if hasPrefixAt(a, i, b) {
			return i
		}
	}
	return -1
}
