#!/usr/bin/env python3
"""Regenerates /verif/MANIFEST.json from harness/index.json (claimed checks) and tools/not_applicable.json."""
import json, os, sys
root = os.path.dirname(os.path.dirname(os.path.abspath(__file__)))
idx = json.load(open(os.path.join(root, "harness", "index.json")))
na = json.load(open(os.path.join(root, "tools", "not_applicable.json")))
props = [json.loads(l) for l in open(os.path.join(root, "properties.jsonl"))]
checks, napp = [], []
for p in props:
    pid = p["id"]
    if pid in idx and idx[pid].get("runs"):
        s = idx[pid]
        checks.append({
            "property_id": pid,
            "quick_cmd": "./check %s quick" % pid,
            "thorough_cmd": "./check %s thorough" % pid,
            "evidence_file": "/verif/evidence/%s.json" % pid,
            "replay_cmd_template": "./check %s --replay {path}" % pid,
            "engine": "gosym",
            "level_claimed": {
                "category": "model_checking",
                "text": s.get("level_text", "Bounded symbolic model checking of the real functions: every feasible path of the harness within the stated bounds is executed symbolically over go/ssa and every obligation (path condition AND NOT property) is decided unsat by z3; a sat answer is concretised and replayed natively against /repo before it is reported."),
                "design_ref": s.get("design_ref", "DESIGN.md §5 " + pid),
            },
            "level_note": s.get("level_note", "Bounds: " + s.get("bounds", "") + ". Trusted base: go/ssa construction, the gosym interpreter and its models/stubs listed in the evidence (sync, time, fmt, proto.Clone/Equal, ...), z3 4.8.12."),
            "technique": s.get("technique", "solver-based bounded symbolic execution of the real Go code (own go/ssa -> SMT-LIB engine, z3), counterexamples replayed natively"),
        })
    else:
        napp.append({"property_id": pid, "reason": na.get(pid, "no check registered in this revision")})
m = {
    "version": 1,
    "setup_cmd": "cd /verif/engine && GOFLAGS=-mod=mod GOPROXY=off GOSUMDB=off GOTOOLCHAIN=local go build -o ../bin/gosym .",
    "hooks": {
        "guard": "verif",
        "enable": "none needed: harnesses and the zzverif runtime are injected with go/packages Overlay and `go test -overlay`; no file of /repo is changed by a check",
        "baseline_off_cmd": "cd /repo && GOFLAGS=-mod=mod GOPROXY=off go test -vet=off -count=1 ./...",
        "source_commits": [],
        "add_only": True,
    },
    "engines": [{"name": "gosym", "path": "/verif/engine", "serves_properties": [c["property_id"] for c in checks],
                 "kind_free_text": "symbolic interpreter over golang.org/x/tools/go/ssa (v0.29.0) emitting SMT-LIB2 (LIA with exact wrap terms, FP) to long-lived z3 -in processes; re-execution DFS over decision vectors on 16 workers; engine-owned goroutine scheduler with preemption bounding and happens-before race detection; native replay through go test -overlay"}],
    "checks": checks,
    "not_applicable": napp,
    "notes": "All checks rebuild the encoding from /repo's current working tree on every run (go/packages + go/ssa). Exit 3 (INCONCLUSIVE) is used for unsupported operations, unwinding failures, solver unknowns and counterexamples that fail to replay; it never occurs on the registered bounds on the unchanged tree. See DESIGN.md.",
}
json.dump(m, open(os.path.join(root, "MANIFEST.json"), "w"), indent=1)
print("checks:", [c["property_id"] for c in checks], "not_applicable:", len(napp))
