#!/bin/bash
# usage: tools/mut.sh <patch.diff> <property-id> [tier] [engine flags...]
# Runs a property's check against a scratch worktree of /repo with the patch applied
# (VERIF_REPO / VERIF_OUT), never touching /repo's working tree; removes the worktree afterwards.
set -u
patch=$(readlink -f "$1"); pid=$2; tier=${3:-quick}; shift 3 || shift $#
export GOFLAGS=-mod=mod GOPROXY=off GOSUMDB=off GOTOOLCHAIN=local
wt=$(mktemp -d /tmp/wt-mut-XXXXXX); so=$(mktemp -d /tmp/mutout-XXXXXX)
git -C /repo worktree add -q --detach "$wt" HEAD || exit 2
(cd "$wt" && git apply "$patch") || { git -C /repo worktree remove --force "$wt"; exit 2; }
(cd /verif && VERIF_REPO=$wt VERIF_OUT=$so timeout ${MUT_TIMEOUT:-3000} ./bin/gosym check $pid $tier "$@" 2>&1 | grep "^VIOLATION\|^KNOWN\|^INCONCL\|^$pid\|^  Verif" | cut -c1-420 | tee ${MUT_SAVE:-/dev/null})
git -C /repo worktree remove --force "$wt"; rm -rf "$so"
