#!/bin/bash
# usage: tools/runall.sh quick|thorough [ids...]   -- runs the registered checks one after another
tier=${1:-quick}; shift
ids="$@"; [ -z "$ids" ] && ids=$(python3 -c "import json;print(' '.join(sorted(json.load(open('/verif/harness/index.json')))))")
for id in $ids; do
  s=$(date +%s); out=$(timeout 7200 /verif/check $id $tier 2>&1); rc=$?; e=$(date +%s)
  echo "$id rc=$rc $((e-s))s :: $(echo "$out" | grep "^$id $tier" | tail -1)"
  echo "$out" | grep "^VIOLATION\|^INCONCL" | cut -c1-300
done
