#!/bin/bash
# usage: tools/seedall.sh [seed-name-glob]     (default: all of seeded/*)
# Regression of the checks against every kept seeded change: each patch is applied to a scratch
# worktree of /repo HEAD (never to /repo's working tree), the property's quick check is run against
# it, and one line per seed says whether a VIOLATION was reported. Worktrees are removed.
cd "$(dirname "$0")/.."
pat=${1:-*}
for d in seeded/$pat/; do
  name=$(basename $d); [ -f $d/patch.diff ] || continue
  prop=$(python3 -c "import json,sys; print(json.load(open('$d/meta.json'))['breaks_property'])" 2>/dev/null) || prop=${name%-*}
  out=$(WORKERS=${WORKERS:-8} tools/mut.sh $d/patch.diff $prop quick -workers ${WORKERS:-8} 2>&1)
  if echo "$out" | grep -q '^VIOLATION'; then r=CAUGHT; elif echo "$out" | grep -q 'exit=3\|^INCONCL'; then r=INCONCLUSIVE; else r=MISSED; fi
  echo "$name $prop $r :: $(echo "$out" | grep "^$prop quick" | tail -1 | cut -c1-160)"
done
