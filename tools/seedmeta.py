#!/usr/bin/env python3
"""usage: seedmeta.py <seed-name> <property> <needs-to-manifest> [note]"""
import json, sys, os, glob
name, prop, needs = sys.argv[1:4]
note = sys.argv[4] if len(sys.argv) > 4 else ""
d = f"/verif/seeded/{name}"
def rd(f):
    p = os.path.join(d, f)
    return open(p).read().strip().splitlines() if os.path.exists(p) else []
checks = {}
for f in glob.glob(os.path.join(d, "check_*.txt")):
    lines = open(f).read().strip().splitlines()
    checks[os.path.basename(f)[6:-4]] = {
        "caught": any(l.startswith("VIOLATION") for l in lines),
        "violations": [l[:300] for l in lines if l.startswith("VIOLATION")][:4],
        "summary": [l for l in lines if l.startswith(prop)][-1:] }
meta = {"breaks_property": prop, "needs_to_manifest": needs, "note": note,
        "confirmed_in_scratch_worktree": {"existing_tests_with_change": rd("existing_tests.txt"), "demo_with_change": rd("demo_with.txt")[-3:], "demo_without_change": rd("demo_without.txt")[-2:]},
        "ran": [f"tools/seedtest.sh {name} /tmp/wt-... {prop} <tier>  (git -C /repo apply patch.diff; ./check {prop} <tier>; git -C /repo checkout -- .)"],
        "checks": checks}
json.dump(meta, open(os.path.join(d, "meta.json"), "w"), indent=1)
print(name, {k: v["caught"] for k, v in checks.items()})
