#!/usr/bin/env python3
"""usage: seedmeta.py <seed-name> <property> <needs-to-manifest> [note]"""
import json, sys, os, glob
name, prop, needs = sys.argv[1:4]
note = sys.argv[4] if len(sys.argv) > 4 else ""
d = f"/verif/seeded/{name}"
def rd(f):
    p = os.path.join(d, f)
    return open(p).read().strip().splitlines() if os.path.exists(p) else []
checks = {}
for f in glob.glob(os.path.join(d, "check_*.txt")):
    lines = open(f).read().strip().splitlines()
    if f.endswith("_first.txt"):
        continue
    checks[os.path.basename(f)[6:-4]] = {
        "caught": any(l.startswith("VIOLATION") for l in lines),
        "violations": [l[:300] for l in lines if l.startswith("VIOLATION")][:4],
        "summary": [l for l in lines if l.startswith(prop)][-1:] }
meta = {"breaks_property": prop, "needs_to_manifest": needs, "note": note,
        "confirmed_in_scratch_worktree": {"existing_tests_with_change": rd("existing_tests.txt"), "full_existing_suite_with_change": [f"{sum(1 for l in rd('existing_tests_full.txt') if l.startswith('ok'))} packages ok, {sum(1 for l in rd('existing_tests_full.txt') if 'FAIL' in l)} FAIL"] if rd("existing_tests_full.txt") else [], "demo_with_change": rd("demo_with.txt")[-3:], "demo_without_change": rd("demo_without.txt")[-2:]},
        "ran": [f"tools/seedtest_wt.sh {name} /tmp/wt2-... {prop} <tier>  (scratch worktree: go build, existing tests of the touched packages, go test ./... of the whole suite, demo with/without the change; check run with VERIF_REPO pointing at the worktree)", f"tools/mut.sh seeded/{name}/patch.diff {prop} quick  (fresh scratch worktree of /repo HEAD + patch, ./bin/gosym check with VERIF_REPO/VERIF_OUT, worktree removed)"],
        "checks": checks}
ff = os.path.join(d, "check_quick_first.txt")
if os.path.exists(ff):
    lines = open(ff).read().strip().splitlines()
    meta["first_run_before_strengthening"] = {"caught": any(l.startswith("VIOLATION") for l in lines), "summary": [l for l in lines if l.startswith(prop)][-1:]}
json.dump(meta, open(os.path.join(d, "meta.json"), "w"), indent=1)
print(name, {k: v["caught"] for k, v in checks.items()})
