#!/bin/bash
# usage: tools/seedtest.sh <seed-name> <worktree> <property-id> [quick|thorough] [pkgs-to-test...]
# Confirms a seeded change in its scratch worktree (build, existing tests, demo with/without), then
# applies it to /repo, runs the property's check and undoes it. Nothing is committed to /repo.
set -u
name=$1; wt=$2; pid=$3; tier=${4:-quick}; shift 4 || shift $#
export GOFLAGS=-mod=mod GOPROXY=off GOSUMDB=off GOTOOLCHAIN=local
out=/verif/seeded/$name; mkdir -p $out
cd $wt || exit 2
[ -f patch.diff ] || git diff -- . ':(exclude)*_test.go' > patch.diff
cp patch.diff $out/patch.diff
demos=$(git status --porcelain | grep '^??' | awk '{print $2}' | grep '_test.go\|demo' | tr '\n' ' ')
for d in $demos; do mkdir -p $out/demo/$(dirname $d); cp -r $d $out/demo/$d; done
[ -f MUTANT.md ] && cp MUTANT.md $out/MUTANT.md
echo "== build with change"; go build ./... 2>&1 | tail -3; b=$?
pkgs=$(git diff --name-only -- . | grep '\.go$' | xargs -n1 dirname | sort -u | sed 's|^|./|' | tr '\n' ' ')
demopkgs=$(for d in $demos; do echo ./$(dirname $d); done | sort -u | tr '\n' ' ')
echo "== existing tests with change (demo moved away): $pkgs $*"
mkdir -p /tmp/demo-hold-$name; for d in $demos; do mkdir -p /tmp/demo-hold-$name/$(dirname $d); mv $d /tmp/demo-hold-$name/$d; done
go test -vet=off -count=1 $pkgs "$@" 2>&1 | tail -8 | tee $out/existing_tests.txt
for d in $demos; do mv /tmp/demo-hold-$name/$d $d; done; rm -rf /tmp/demo-hold-$name
echo "== demo WITH change: $demopkgs"
go test -vet=off -count=1 -run 'Demo|demo|ZZ' $demopkgs 2>&1 | tail -6 | tee $out/demo_with.txt
echo "== demo WITHOUT change"
git apply -R patch.diff && go test -vet=off -count=1 -run 'Demo|demo|ZZ' $demopkgs 2>&1 | tail -4 | tee $out/demo_without.txt; git apply patch.diff
echo "== apply to /repo and run ./check $pid $tier"
cd /repo && git apply $out/patch.diff && (cd /verif && timeout 3000 ./check $pid $tier 2>&1 | grep "^VIOLATION\|^KNOWN\|^INCONCL\|^$pid" | cut -c1-400 | tee $out/check_$tier.txt); git -C /repo checkout -- . ; git -C /repo status --short | head -3
