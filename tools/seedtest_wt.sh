#!/bin/bash
# usage: tools/seedtest_wt.sh <seed-name> <worktree> <property-id> [quick|thorough]
# Like seedtest.sh but never touches /repo: the engine is pointed at the scratch worktree
# (VERIF_REPO) and evidence/replay files go to a scratch directory (VERIF_OUT). Used while
# long-running checks are active on /repo.
set -u
name=$1; wt=$2; pid=$3; tier=${4:-quick}
export GOFLAGS=-mod=mod GOPROXY=off GOSUMDB=off GOTOOLCHAIN=local
out=/verif/seeded/$name; mkdir -p $out
cd $wt || exit 2
[ -f patch.diff ] || git diff -- . ':(exclude)*_test.go' > patch.diff
cp patch.diff $out/patch.diff
demos=$(git status --porcelain | grep '^??' | awk '{print $2}' | grep '_test.go\|demo' | tr '\n' ' ')
for d in $demos; do mkdir -p $out/demo/$(dirname $d); cp -r $d $out/demo/$d; done
[ -f MUTANT.md ] && cp MUTANT.md $out/MUTANT.md
echo "== build with change"; go build ./... 2>&1 | tail -3
pkgs=$(git diff --name-only -- . | grep '\.go$' | xargs -n1 dirname | sort -u | sed 's|^|./|' | tr '\n' ' ')
demopkgs=$(for d in $demos; do echo ./$(dirname $d); done | sort -u | tr '\n' ' ')
echo "== existing tests with change (demo moved away): $pkgs"
mkdir -p /tmp/demo-hold-$name; for d in $demos; do mkdir -p /tmp/demo-hold-$name/$(dirname $d); mv $d /tmp/demo-hold-$name/$d; done
go test -vet=off -count=1 $pkgs 2>&1 | tail -8 | tee $out/existing_tests.txt
echo "== check $pid $tier against the worktree (demo moved away)"
so=/tmp/seedout-$name; mkdir -p $so
(cd /verif && VERIF_REPO=$wt VERIF_OUT=$so timeout 3000 ./bin/gosym check $pid $tier -workers ${WORKERS:-8} 2>&1 | grep "^VIOLATION\|^KNOWN\|^INCONCL\|^$pid" | cut -c1-400 | tee $out/check_$tier.txt)
rm -rf $so
for d in $demos; do mv /tmp/demo-hold-$name/$d $d; done; rm -rf /tmp/demo-hold-$name
echo "== demo WITH change: $demopkgs"
go test -vet=off -count=1 -run 'Demo|demo|ZZ' $demopkgs 2>&1 | tail -6 | tee $out/demo_with.txt
echo "== demo WITHOUT change"
git apply -R patch.diff && go test -vet=off -count=1 -run 'Demo|demo|ZZ' $demopkgs 2>&1 | tail -4 | tee $out/demo_without.txt; git apply patch.diff
