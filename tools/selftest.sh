#!/bin/bash
# usage: tools/selftest.sh
# Model self-test (DESIGN §4.4): the litmus harnesses in harness/selftest exercise the library
# models (sync, atomic, strings, errors, time, context, ...) with assertions that are facts of Go.
# Each case must (1) pass natively against the real library (go test -overlay) and (2) be decided
# "ok" by the engine with no unsupported operation, on every schedule within the bound.
set -u
cd "$(dirname "$0")/.."
export GOFLAGS=-mod=mod GOPROXY=off GOSUMDB=off GOTOOLCHAIN=local
REPO=${VERIF_REPO:-/repo}
tmp=$(mktemp -d /tmp/selftest-XXXXXX); trap 'rm -rf $tmp' EXIT
N=20; fail=0
python3 - "$tmp" "$REPO" $N <<'P'
import json,sys,glob,os
tmp,repo,n=sys.argv[1],sys.argv[2],int(sys.argv[3])
ov={}
for f in glob.glob('/verif/harness/zzverif/*.go'): ov[f"{repo}/zzverif/{os.path.basename(f)}"]=f
ov[f"{repo}/coalesce/zz_verif_lit.go"]="/verif/harness/selftest/lit.go"
ov[f"{repo}/coalesce/zz_verif_lit2.go"]="/verif/harness/selftest/lit2.go"
open(f"{tmp}/t_test.go","w").write('package coalesce\n\nimport (\n\t"testing"\n\t"github.com/openconfig/gnmi/zzverif"\n)\n\nfunc TestVerifReplay(t *testing.T) {\n\tif zzverif.RunCases(map[string]func(*zzverif.H){"VerifLit": VerifLit, "VerifLit2": VerifLit2}) != 0 {\n\t\tt.Fatal("runner failed")\n\t}\n}\n')
ov[f"{repo}/coalesce/zz_verif_replay_test.go"]=f"{tmp}/t_test.go"
json.dump({"Replace":ov},open(f"{tmp}/overlay.json","w"))
cases=[{"entry":"VerifLit","inputs":[],"params":{"CASE":i},"expect":"ok"} for i in range(n+1)]+[{"entry":"VerifLit2","inputs":[],"params":{},"expect":"ok"}]
json.dump(cases,open(f"{tmp}/cases.json","w"))
P
(cd $REPO && VERIF_REPLAY=$tmp/cases.json timeout 600 go test -vet=off -count=1 -overlay $tmp/overlay.json -run '^TestVerifReplay$' ./coalesce > $tmp/native.txt 2>&1)
python3 - "$tmp" <<'P' || fail=1
import json,sys
tmp=sys.argv[1]
try: res=json.load(open(f"{tmp}/cases.json.out"))
except Exception as e:
    print("native run failed:", e); print(open(f"{tmp}/native.txt").read()[-2000:]); sys.exit(1)
bad=[(i,r) for i,r in enumerate(res) if r["outcome"]!="ok"]
for i,r in bad: print("NATIVE MISMATCH case",i,r["outcome"],r.get("detail","")[:300])
print(f"native: {len(res)-len(bad)}/{len(res)} litmus cases hold against the real library")
sys.exit(1 if bad else 0)
P
for i in $(seq 0 $N) L2; do
  if [ $i = L2 ]; then out=$(timeout 300 ./bin/gosym run coalesce harness/selftest/lit2.go VerifLit2 -race 2>&1); else out=$(timeout 300 ./bin/gosym run coalesce harness/selftest/lit.go VerifLit -params CASE=$i -preempt 2 -env 2 -race 2>&1); fi
  if echo "$out" | grep -q '^note\|VIOLATION' || ! echo "$out" | grep -q '"ok": [1-9]'; then echo "ENGINE MISMATCH case $i:"; echo "$out" | grep '^note\|VIOLATION' | cut -c1-300; fail=1; fi
done
[ $fail = 0 ] && echo "selftest: engine agrees with the real library on all litmus cases" || echo "selftest: FAILED"
exit $fail
